#!/bin/bash
# Offline setup: nothing to build (pure Python run by /venv/bin/python); run the
# self-test of the reference IC10 machine so that a broken harness is noticed here.
cd "$(dirname "$0")"
mkdir -p evidence replays
export PYTHONHASHSEED=0
unset PYTHONDONTWRITEBYTECODE
# byte-code caches for the package (git-ignored build output): the @constexpr helper process must import it within 1 s
/venv/bin/python -m compileall -q "${PYTRAPIC_REPO:-/repo}/src/stationeers_pytrapic" >/dev/null 2>&1 || true
exec /venv/bin/python -m vp.selftest
