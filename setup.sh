#!/bin/bash
# Offline setup: nothing to build (pure Python run by /venv/bin/python); run the
# self-test of the reference IC10 machine so that a broken harness is noticed here.
cd "$(dirname "$0")"
mkdir -p evidence replays
export PYTHONHASHSEED=0 PYTHONDONTWRITEBYTECODE=1
exec /venv/bin/python -m vp.selftest
