"""Program families (DESIGN.md section 3): finite, deterministic, completely
enumerated sets of source programs.  Every generator returns a list of case
dicts (see xcase.py).  Exclusions are listed in DESIGN 3.9."""
import itertools
import re as _re

HDR = "from stationeers_pytrapic.symbols import *\n"


def ind(body, n=1):
    pad = "    " * n
    if isinstance(body, str):
        body = [body]
    return "".join(pad + l + "\n" for b in body for l in b.rstrip("\n").split("\n"))


def mk(family, idx, src, **kw):
    c = {"family": family, "idx": idx, "src": src}
    c.update(kw)
    return c


# ----------------------------------------------------------------------------
# CTRL

TESTS = ["x > 1", "x <= 1", "x == 1", "x != 1", "not x > 1", "x", "not x", "x > 0 and y < 2", "x or y", "d1.On"]
LEAVES = ["db.Setting = {k}", "acc += x", "acc = acc * 2 + {k}"]
RANGES = ["range(3)", "range(1, 4)", "range(0, 6, 2)", "range(3, 0, -1)", "range(y)", "range(1, y)"]


def _ctrl_blocks(depth, level=0, thorough=False):
    """Statement strings of nesting depth <= depth; loop variables are indexed by
    nesting level so that nested loops never share a variable."""
    for l in LEAVES:
        yield l
    if depth == 0:
        return
    inner = list(_ctrl_blocks(depth - 1, level + 1, thorough)) if depth > 1 else LEAVES
    if depth > 1 and not thorough:
        pass
    i, j, v = f"i{level}", f"j{level}", f"v{level}"
    for t in TESTS:
        for b in inner:
            yield f"if {t}:\n" + ind(b)
            for b2 in LEAVES[:2]:
                yield f"if {t}:\n" + ind(b) + "else:\n" + ind(b2)
    for t in TESTS[:3]:
        for b in LEAVES[:2]:
            yield f"if {t}:\n" + ind(b) + "elif y > 1:\n" + ind(LEAVES[0]) + "else:\n" + ind(LEAVES[1])
    for b in inner:
        yield f"{i} = 0\nwhile {i} < 3:\n" + ind([b, f"{i} += 1"])
        yield f"{i} = 0\nwhile {i} < 3:\n" + ind([f"{i} += 1", b])
        for r in RANGES:
            yield f"for {j} in {r}:\n" + ind([b, f"db.On = {j}"])
        yield f"for {v} in [3, 9]:\n" + ind([b, f"db.On = {v}"])
        yield f"{i} = 0\nwhile True:\n" + ind([f"{i} += 1", f"if {i} > 2:\n    break", b])
        yield f"{i} = 0\nwhile {i} < 4:\n" + ind([f"{i} += 1", f"if {i} == 2:\n    continue", b])
        yield f"{i} = 0\nwhile {i} < y:\n" + ind([b, f"{i} += 1"])


def ctrl(tier="quick"):
    out = []
    blocks = list(_ctrl_blocks(2))
    if tier == "thorough":
        # depth 3, restricted: outer constructs wrap every depth-2 block whose own
        # outermost construct is a loop or an if/else
        d2 = [b for b in blocks if b.count("\n") >= 2]
        extra = []
        for b in d2[:: 3]:
            extra.append("if x > 1:\n" + ind(b) + "else:\n" + ind("acc += x"))
            extra.append("ia = 0\nwhile ia < 2:\n" + ind([b, "ia += 1"]))
            extra.append("for ja in range(2):\n" + ind([b, "db.On = ja"]))
        blocks = blocks + extra
    for n, b in enumerate(blocks):
        body = b.replace("{k}", str(10 + n % 7))
        src = "x = d0.Setting\ny = d2.Setting\nacc = 1\n" + body + "\ndb.Setting = acc\n"
        fam = "W-F01g" if ("for v0 in [" in src and "for v1 in [" in src) else "CTRL"  # nested for-over-list: finding F-01g
        out.append(mk(fam, n, src, V=[0, 1, 2, 3], K=10, T=3, cap=256, variants=[{}, {"remove_labels": True}]))
    # two-statement bodies: sequencing of two constructs (state carried over)
    seq = [b for b in _ctrl_blocks(1)]
    step = 7 if tier == "quick" else 2
    m = 0
    for a in seq[::step]:
        for b in seq[3::step]:
            b = b.replace("i0", "i5").replace("j0", "j5").replace("v0", "v5")
            body = (a + "\n" + b).replace("{k}", str(20 + m % 5))
            src = "x = d0.Setting\ny = d2.Setting\nacc = 1\n" + body + "\ndb.Setting = acc\n"
            out.append(mk("CTRL2", m, src, V=[0, 1, 2, 3], K=10, T=3, cap=256, variants=[{}, {"remove_labels": True}]))
            m += 1
    return out


# ----------------------------------------------------------------------------
# EXPR

BINOPS = ["+", "-", "*", "/", "%", "**", "and", "or", "^", "&", ">>", "<<", "==", "!=", "<", ">", "<=", ">="]
CONSTS = ["0", "1", "2", "-3", "0.5"]
DYN = ["d0.Setting", "stack[1]", "x"]
MATH1 = ["sqrt", "abs", "floor", "ceil", "round", "trunc", "exp", "log", "sin", "cos", "tan", "asin", "acos", "atan"]


def _num(a):
    try:
        return float(a)
    except ValueError:
        return None


def _binop_ok(op, a, b):
    """Stay inside the range where IC10 semantics are unambiguous (C03's
    quantifier) -- for constant operands; dynamic operands draw from V = 0..3."""
    na, nb = _num(a), _num(b)
    if op == "%":
        if nb is not None and nb <= 0:
            return False
    if op in ("^", "&", ">>", "<<"):
        for n in (na, nb):
            if n is not None and (n < 0 or n != int(n)):
                return False
    if op in ("and", "or"):
        for n in (na, nb):
            if n is not None and n not in (0.0, 1.0):
                return False
    if op == "**":
        if na is not None and na < 0:
            return False
        if na == 0 and nb is not None and nb < 0:
            return False
        if na is None and nb is not None and nb != int(nb):
            # dynamic base may be 0..3: fractional exponents are fine; keep
            pass
    if op == "/" and nb == 0:
        return False
    return True


def exprs(depth=1):
    atoms = CONSTS + DYN
    E = []
    for op in BINOPS:
        for a in atoms:
            for b in atoms:
                if _num(a) is not None and _num(b) is not None and False:
                    continue
                if _binop_ok(op, a, b):
                    E.append(f"{a} {op} {b}")
    for a in atoms:
        E.append(f"-{a}" if not a.startswith("-") else f"-({a})")
        E.append(f"not {a}")
    for a in DYN + ["2", "0.5"]:
        for f in MATH1:
            if f in ("asin", "acos") and a == "2":
                continue
            E.append(f"{f}({a})")
    for a in DYN:
        E.append(f"max({a}, 2)")
        E.append(f"min({a}, 0.5)")
        E.append(f"atan2({a}, 1)")
        E.append(f"5 if {a} else 6")
        E.append(f"{a} if {a} > 1 else 7")
        E.append(f"[5, 6, 7, 8][{a}]")
        E.append(f"[5, 6][{a} > 1]")
        E.append(f"pi * {a}")
    return E


def _ops_of(e):
    return e


def expr(tier="quick"):
    out = []
    E = exprs()
    if tier == "thorough":
        # depth 2: op(op(a,b), c) and op(a, op(b,c)) over 3 atoms and a reduced operator set
        ops2 = ["+", "-", "*", "/", "<", "==", "and", "or", "%"]
        at = ["2", "d0.Setting", "x"]
        for o1 in ops2:
            for o2 in ops2:
                for a, b, c in itertools.product(at, repeat=3):
                    if not (_binop_ok(o1, a, b) and _binop_ok(o2, b, c)):
                        continue
                    if o2 in ("%",) and True:
                        pass
                    E.append(f"({a} {o1} {b}) {o2} {c}")
                    E.append(f"{a} {o1} ({b} {o2} {c})")
    n = 0
    for e in E:
        forms = [
            f"db.Setting = {e}\n",
            f"w = {e}\ndb.Setting = w\ndb.On = w\n",
            f"if {e}:\n    db.Setting = 1\nelse:\n    db.Setting = 2\n",
        ]
        if tier == "quick" and n % 3:
            forms = forms[:1] + forms[2:]
        for fm in forms:
            src = "x = d1.Setting\n" + fm
            # 'if a < b' is lowered to a branch on the negated comparison: with a NaN operand (0/0, x % 0) the if-branch is
            # taken although the comparison is false (finding F-01i)
            fam = "W-F01i" if (fm.startswith("if ") and _re.search(r"[/%] \(?(d0|x)", e) and "<" in e) else "EXPR"
            out.append(mk(fam, n, src, V=[0, 1, 2, 3], K=6, T=2, cap=300, variants=[{}]))
            n += 1
    return out


# ----------------------------------------------------------------------------
# FUNC

RETFORMS = {
    "tailloop": lambda e: f"i = 0\nwhile True:\n    i += 1\n    if i * 2 >= {e}:\n        return i + 10\n",
    "none": lambda e: f"db.On = {e}\n",
    "end": lambda e: f"return {e}\n",
    "early": lambda e: f"if {e} > 2:\n    return {e} - 1\ndb.On = {e}\nreturn {e} + 1\n",
    "loop": lambda e: f"for q in range(3):\n    if q == {e}:\n        return q + 10\nreturn 0 - 1\n",
    "bare": lambda e: f"if {e} > 1:\n    return\ndb.On = {e}\n",
}
HASRET = {"end", "early", "loop", "tailloop"}


def fdef(name, params, body):
    return f"def {name}({', '.join(params)}):\n" + ind(body)


def _enc(params):
    return " + ".join(f"{p} * {10 ** i}" for i, p in enumerate(params)) or "7"


def func(tier="quick"):
    """Call graphs over <= 3 functions.  Main is `while True: ... yield_()`."""
    out = []
    n = 0

    def add(src, tag):
        nonlocal n
        out.append(mk("FUNC", n, src, tag=tag, V=[0, 1, 2, 3], K=8, T=2, cap=128))
        n += 1

    for ar in (0, 1, 2, 3):
        params = ["a", "b", "c"][:ar]
        enc = _enc(params)
        for rk, rf in RETFORMS.items():
            has = rk in HASRET
            for overwrite in (False, True):
                if overwrite and ar == 0:
                    continue
                pre = (f"{params[0]} = {params[0]} + 1\n" if overwrite else "")
                for glob in (False, True):
                    gpre = "global G\nG = G + 1\n" if glob else ""
                    body = gpre + pre + "t = " + enc + "\n" + rf("t")
                    args1 = ["d0.Setting", "2", "x + 1"][:ar]
                    args2 = ["1", "x", "3"][:ar]
                    call1 = f"f({', '.join(args1)})"
                    call2 = f"f({', '.join(args2)})"
                    ginit = "G = 0\n" if glob else ""
                    gout = "db.Mode = G\n" if glob else ""
                    for ctx in ("stmt", "assign", "expr", "twice", "arg"):
                        if not has and ctx in ("assign", "expr", "arg"):
                            continue
                        if tier == "quick" and glob and ctx in ("expr", "arg"):
                            continue
                        if ctx == "arg" and ar == 0:
                            continue
                        body_main = {
                            "stmt": f"{call1}\n",
                            "assign": f"r = {call1}\ndb.Setting = r\n",
                            "expr": f"db.Setting = {call1} * 2 + x\n",
                            "twice": (f"db.Setting = {call1} + {call2}\n" if has else f"{call1}\n{call2}\n"),
                            "arg": f"db.Setting = f({', '.join([call2] + args1[1:])})\n",
                        }[ctx]
                        main = "x = d1.Setting\n" + body_main + gout + "yield_()\n"
                        add(ginit + fdef("f", params, body) + "while True:\n" + ind(main), f"single/{ar}/{rk}/{ctx}/{overwrite}/{glob}")
                        if overwrite or (glob and tier == "quick"):
                            continue
                        # chain: g calls f (and f is called from main too when ctx == twice)
                        c1 = call1.replace("d0.Setting", "p")
                        gbody = f"u = {c1}\nreturn u + 100\n" if has else f"{c1}\ndb.Setting = p\n"
                        gmain = "x = d1.Setting\n" + ("db.Setting = g(d0.Setting)\n" if has else "g(d0.Setting)\n") + (("db.On = g(x)\n" if has else "g(x)\n") if ctx == "twice" else "") + gout + "yield_()\n"
                        add(ginit + fdef("f", params, body) + "x = 5\n" + fdef("g", ["p"], gbody) + "while True:\n" + ind(gmain), f"chain/{ar}/{rk}/{ctx}/{glob}")
                        if ctx in ("stmt", "twice"):
                            # chain with double inner call
                            gbody2 = (f"u = {c1}\nw = {call2}\nreturn u + w\n" if has else f"{c1}\n{call2}\n")
                            add(ginit + fdef("f", params, body) + "x = 5\n" + fdef("g", ["p"], gbody2) + "while True:\n" + ind(gmain), f"chain2/{ar}/{rk}/{ctx}/{glob}")
                        if ctx == "stmt":
                            # two siblings
                            hbody = f"db.Mode = q + 1\n" + ("return q * 3\n" if has else "")
                            smain = "x = d1.Setting\n" + (f"db.Setting = {call1} + h(x)\n" if has else f"{call1}\nh(x)\n") + ("db.On = h(2)\n" if has else "h(2)\n") + (f"db.On = {call2}\n" if has else f"{call2}\n") + "yield_()\n"
                            add(ginit + fdef("f", params, body) + fdef("h", ["q"], hbody) + "while True:\n" + ind(smain), f"sib/{ar}/{rk}/{glob}")
                            # chain of 3: k -> g -> f
                            kbody = ("v = g(z + 1)\nreturn v + 1000\n" if has else "g(z + 1)\ndb.Mode = z\n")
                            kmain = "x = d1.Setting\n" + ("db.Setting = k(d0.Setting)\ndb.On = k(x)\n" if has else "k(d0.Setting)\nk(x)\n") + "yield_()\n"
                            add(ginit + fdef("f", params, body) + "x = 5\n" + fdef("g", ["p"], gbody) + fdef("k", ["z"], kbody) + "while True:\n" + ind(kmain), f"chain3/{ar}/{rk}/{glob}")
    # return g(...) form and tail position
    for ar in (1, 2):
        params = ["a", "b"][:ar]
        for tail in (False, True):
            fb = f"db.On = {_enc(params)}\nreturn a + 1\n"
            gb = "db.Mode = p\n" + ("return f(" + ", ".join(["p", "2"][:ar]) + ")\n")
            main = "x = d1.Setting\ndb.Setting = g(d0.Setting)\ndb.Setting = g(x)\nyield_()\n"
            add(fdef("f", params, fb) + fdef("g", ["p"], gb) + "while True:\n" + ind(main), f"retcall/{ar}")
            if tail:
                # callee's last statement is a plain call: the only shape the tail-call option rewrites
                fb2 = f"db.On = {_enc(params)}\n"
                gb2 = "db.Mode = p\nf(" + ", ".join(["p", "2"][:ar]) + ")\n"
                main2 = "x = d1.Setting\ng(d0.Setting)\ng(x)\nf(" + ", ".join(["3", "x"][:ar]) + ")\nyield_()\n"
                add(fdef("f", params, fb2) + fdef("g", ["p"], gb2) + "while True:\n" + ind(main2), f"tail/{ar}")
    return out


def func_cyclic():
    """Must-be-rejected sub-family: recursion."""
    out = []
    srcs = [
        "def f(a):\n    if a > 0:\n        f(a - 1)\n    db.On = a\nwhile True:\n    f(d0.Setting)\n    f(2)\n    yield_()\n",
        "def f(a):\n    if a > 0:\n        return f(a - 1) + 1\n    return 0\nwhile True:\n    db.Setting = f(d0.Setting)\n    db.On = f(2)\n    yield_()\n",
        "def f(a):\n    if a > 0:\n        g(a - 1)\n    db.On = a\ndef g(b):\n    f(b)\n    f(b + 1)\nwhile True:\n    g(d0.Setting)\n    g(1)\n    yield_()\n",
        "def f(a):\n    g(a)\n    g(1)\ndef g(b):\n    h(b)\n    h(2)\ndef h(c):\n    if c > 5:\n        f(c)\n        f(3)\n    db.On = c\nwhile True:\n    f(d0.Setting)\n    f(0)\n    yield_()\n",
    ]
    for i, s in enumerate(srcs):
        out.append(mk("FUNC-CYCLIC", i, s, expect="error", V=[0, 1], variants=[{}, {"inline_functions": False}]))
    return out


# ----------------------------------------------------------------------------
# LIST

def lists(tier="quick", lens=range(1, 10)):
    out = []
    n = 0
    for ln in lens:
        for kind in ("num", "hash"):
            if kind == "num":
                elems = [str(90 + i) for i in range(ln)]
            else:
                elems = [f'HASH("N{i}")' for i in range(ln)]
            arr = "[" + ", ".join(elems) + "]"
            V = list(range(ln)) if ln > 1 else [0, 0]
            for ctx in ("main", "func", "loop"):
                for isrc in ("dev", "counter"):
                    if isrc == "counter":
                        if ctx == "main":
                            src = f"arr = {arr}\nfor i in range({ln}):\n    db.Setting = arr[i]\n"
                        elif ctx == "func":
                            src = f"arr = {arr}\ndef f(k):\n    return arr[k] + 1\nwhile True:\n    for i in range({ln}):\n        db.Setting = f(i)\n    db.On = f(0)\n    yield_()\n"
                        else:
                            src = f"arr = {arr}\nn = 0\nwhile n < {ln}:\n    db.Setting = arr[n] + n\n    n += 1\n"
                    else:
                        if ctx == "main":
                            src = f"arr = {arr}\nk = d0.Setting\ndb.Setting = arr[k]\ndb.On = arr[d1.Setting] + 1\n"
                        elif ctx == "func":
                            src = f"arr = {arr}\ndef f(k):\n    return arr[k] + 1\nwhile True:\n    db.Setting = f(d0.Setting)\n    db.On = f(d1.Setting)\n    yield_()\n"
                        else:
                            src = f"arr = {arr}\nwhile True:\n    k = d0.Setting\n    db.Setting = arr[k]\n    yield_()\n"
                    out.append(mk("LIST", n, src, ln=ln, V=V, K=12, T=2, cap=256))
                    n += 1
            # the looked-up value bound to a plain name that is read more than once, next to the index
            for ctx, src in (
                ("main-var", f"arr = {arr}\nk = d0.Setting\nv = arr[k]\ndb.Setting = v\ndb.On = v + k\n"),
                ("func-var", f"def f(k):\n    arr = {arr}\n    v = arr[k]\n    db.Setting = v\n    return v + k\nwhile True:\n    db.On = f(d0.Setting)\n    db.Mode = f(d1.Setting)\n    yield_()\n"),
                ("reuse", f"arr = {arr}\nk = d0.Setting\ndb.Setting = arr[k]\ndb.On = arr[-1] + k\ndb.Lock = arr[-2]\nfor v in arr:\n    db.Mode = v\n"),
                ("loop-var", f"arr = {arr}\nn = 0\nwhile n < {ln}:\n    v = arr[n]\n    w = arr[{ln - 1} - n]\n    db.Setting = v\n    db.On = w + v + n\n    n += 1\n"),
            ):
                out.append(mk("LIST", n, src, ln=ln, V=V, K=12, T=2, cap=256))
                n += 1
    return out


# ----------------------------------------------------------------------------
# REG (register pressure)

def reg(tier="quick", ks=range(1, 21)):
    """Register pressure: k simultaneously live values in several lifetime shapes."""
    out = []
    n = 0
    G = "def g(p):\n    t = p * 2\n    return t + 1\n"
    G2 = "def h(q):\n    e = q + 3\n    return e * 2\ndef g(p):\n    t = p * 2\n    u = h(t)\n    w = h(u)\n    return t + u + w\n"
    G3 = "def k3(z):\n    return z + 7\ndef h(q):\n    e = k3(q) + k3(q + 1)\n    return e * 2\ndef g(p):\n    t = p * 2\n    u = h(t)\n    w = h(u)\n    return t + u + w\n"
    for k in ks:
        vs = [f"v{i}" for i in range(k)]
        loads = "".join(f"{v} = d{i % 3}.Setting\n" for i, v in enumerate(vs))
        uses = "".join(f"db.On = {v}\n" for v in vs)
        inits = "".join(f"{v} = {i}\n" for i, v in enumerate(vs))
        shapes = {}
        shapes["straight"] = loads + "yield_()\n" + uses
        shapes["straightfunc"] = "def w(p):\n" + ind(loads + "db.Mode = p\n" + uses) + "while True:\n    w(d1.Setting)\n    w(2)\n    yield_()\n"
        shapes["loopcarried"] = "def w(p):\n" + ind(inits + "n = 0\nwhile n < 2:\n" + ind("".join(f"{v} = {v} + d0.Setting\n" for v in vs) + "n += 1") + uses) + "while True:\n    w(d1.Setting)\n    w(2)\n    yield_()\n"
        shapes["nestedloop"] = "def w(p):\n" + ind(inits + "for a in range(2):\n" + ind("for b in range(2):\n" + ind("".join(f"{v} = {v} + a + b + d0.Setting\n" for v in vs))) + uses) + "while True:\n    w(d1.Setting)\n    w(2)\n    yield_()\n"
        shapes["acrosscall"] = G + "while True:\n" + ind(loads + "m = g(d1.Setting)\nm2 = g(m)\n" + uses + "db.Setting = m + m2\nyield_()")
        shapes["acrosscall2"] = G2 + "while True:\n" + ind(loads + "m = g(d1.Setting)\nm2 = g(m)\n" + uses + "db.Setting = m + m2\nyield_()")
        shapes["acrosscall3"] = G3 + "while True:\n" + ind(loads + "m = g(d1.Setting)\nm2 = g(m)\n" + uses + "db.Setting = m + m2\nyield_()")
        shapes["infunc"] = G + "def w(p):\n" + ind(loads + "m = g(p)\nm2 = g(m)\n" + uses + "return m + m2\n") + "while True:\n" + ind("a = d1.Setting\nq1 = w(a)\nq2 = w(q1)\ndb.Setting = a + q1 + q2\nyield_()")
        if k <= 10:
            shapes["longexpr"] = "db.Setting = " + " + ".join(f"(d{i % 3}.Setting * {i + 2} - d{(i + 1) % 3}.On / {i + 1})" for i in range(k)) + "\n"
            shapes["refid"] = G + "while True:\n" + ind("rid = d0.ReferenceId\nst = Stack(ref_id=rid)\n" + loads + "m = g(d1.Setting)\nm2 = g(m)\n" + "".join(f"st[{i}] = {v}\n" for i, v in enumerate(vs)) + "st[20] = m + m2\nyield_()")
            shapes["refid-struct"] = "def w(p):\n" + ind("rid = d0.ReferenceId\ndv = GasSensor(ref_id=rid)\n" + loads + "db.Setting = dv.Pressure + p\n" + uses + "db.On = dv.Temperature\n") + "while True:\n    w(d1.Setting)\n    w(2)\n    yield_()\n"
        for name, src in shapes.items():
            out.append(mk("REG", n, src, k=k, shape=name, V=[0, 1, 2], K=min(24, k + 6), T=2, cap=40, D=2, variants=[{}, {"inline_functions": False}, {"inline_functions": False, "use_push_pop_functions": True}, {"use_push_pop_functions": True}]))
            n += 1
    return out


# ----------------------------------------------------------------------------
# DEV (device access forms)

def dev(tier="quick"):
    out = []
    forms = [
        "db.Setting = d0.Pressure\n",
        "gs = GasSensor(d0)\ndb.Setting = gs.Pressure\ndb.On = gs.Temperature\n",
        "gs = GasSensor(d1, alias=True)\ndb.Setting = gs.Pressure\ngs.On = 1\n",
        'gs = GasSensor(d2, alias="SENS")\ndb.Setting = gs.Pressure\ngs.On = d0.Setting\n',
        "gl = GrowLight(ref_id=291)\ngl.On = d0.Setting\ndb.Setting = gl.Power\n",
        "rid = Batteries.Minimum.ReferenceId\nbt = Battery(ref_id=rid)\ndb.Setting = bt.Charge\nbt.On = 1\ndb.On = bt.Ratio\n",
        "db.Setting = Batteries.Average.Charge\ndb.On = Batteries.Charge.Average\n",
        "db.Setting = Batteries.Minimum.Charge + Batteries.Charge.Maximum\ndb.On = Batteries.Sum.Charge\n",
        'db.Setting = Batteries["Bank"].Average.Charge\ndb.On = Batteries["Bank"].Charge.Sum\n',
        'h = HASH("Bank")\ndb.Setting = Batteries[h].Maximum.Charge\n',
        "nm = d0.Setting\ndb.Setting = Batteries[nm].Minimum.Charge\n",
        "GrowLights.On = d0.Setting\n",
        'GrowLights["Potatos"].On = d0.Setting\nGrowLights[HASH("P2")].On = 1\n',
        "b = Batteries.Average\nif b.Charge < 1:\n    GrowLights.On = 1\nelse:\n    GrowLights.On = b.Ratio\n",
        'b = Batteries["X"].Average\ndb.Setting = b.Charge + b.Ratio\n',
        "f = ArcFurnace(d0)\nif f.Import.Occupied:\n    f.Activate = 1\nt = f.slot0.PrefabHash\nf.Export.Occupied = t\n",
        "f = ArcFurnace(d3)\ndb.Setting = f.slot1.Quantity\nf.slot0.Occupied = d1.Setting\n",
        "fs = ArcFurnaces\nif fs.Import.Occupied.Maximum:\n    fs.Activate = 1\nt = fs.slot0.PrefabHash.Maximum\nfs.Export.Occupied = t\n",
        "stack[5] = d0.Setting\ndb.Setting = stack[5] + stack[6]\n",
        "st = Stack(d4)\na = 13 + st[d0.Setting]\nst[a] = st[9]\n",
        "st = Stack(ref_id=255)\na = 13 + st[2]\nst[a] = st[9]\ndb.Setting = a\n",
        "st = Stack()\nst[3] = d0.Setting\ndb.Setting = st[3] * 2\n",
        "db.Setting = d0.Setting\nd1.On = d0.On\nd2.Mode = 3\nd3.Lock = d4.Lock\nd5.Open = d5.Open + 1\n",
        "db.Mode = DisplayMode.Power\ndb.Color = Color.Red\ndb.Setting = LogicType.Pressure\n",
        "x = Device(d0)\ndb.Setting = x.Pressure\nx.On = 1\n",
        "ds = DaylightSensor(d5)\ndb.Setting = ds.Horizontal\ndb.On = ds.Vertical > 1\n",
        'db.Setting = STR("Day") if DaylightSensor(d0).Vertical < 2 else STR("Night")\n',
        "GrowLights.On = DaylightSensor(d0).Vertical > 1\n",
        "a = d0.Setting\nwhile Batteries.Average.Charge < 2:\n    a += 1\n    db.Setting = a\ndb.On = a\n",
        "def rd():\n    return GasSensors.Average.Pressure\nwhile True:\n    db.Setting = rd()\n    db.On = rd() + 1\n    yield_()\n",
    ]
    for i, f in enumerate(forms):
        # with and without the header line; inside a function as well
        out.append(mk("DEV", 3 * i, HDR + f, ref_src=f, V=[0, 1, 2, 3], K=8, T=2, cap=256, variants=[{}, {"compact": True}, {"remove_labels": True}]))
        body = f
        if not body.startswith("def ") and "ref_id=rid" not in body:  # F-04a: see w_alias_lifetime
            fsrc = "def work():\n" + ind(body) + "while True:\n    work()\n    work()\n    yield_()\n"
            out.append(mk("DEV", 3 * i + 1, fsrc, V=[0, 1, 2, 3], K=8, T=2, cap=128, variants=[{}, {"inline_functions": False}, {"compact": True, "remove_labels": True, "inline_functions": False}]))
    return out


# ----------------------------------------------------------------------------
# TERM (terminating main with out-of-line functions) -- C07

def term():
    """Programs whose top-level code terminates (C07): function shapes x main shapes x inline on/off x convention."""
    out = []
    n = 0
    fdefs = {
        "f1": "def f(a):\n    db.On = a\n",
        "f1r": "def f(a):\n    db.On = a\n    return a + 1\n",
        "f2": "def f(a):\n    db.On = a\ndef g(b):\n    db.Mode = b\n    f(b)\n    f(b + 1)\n",
        "f1early": "def f(a):\n    if a > 1:\n        return a\n    db.On = a\n    return a + 1\n",
        "f3": "def aa(a):\n    db.On = a\ndef bb(b):\n    db.Mode = b\ndef cc(c):\n    db.Lock = c\n    aa(c)\n    bb(c)\n",
        "unused": "def f(a):\n    db.On = a\ndef never(b):\n    db.Open = b\n",
        # a chain of never-called functions that call the (once-called, hence inlined) function f
        "deadchain": "def f(a):\n    db.On = a\ndef step(b):\n    f(b)\n    f(b + 1)\ndef run(c):\n    step(c)\n",
        "deadchain1": "def f(a):\n    db.On = a\ndef step(b):\n    f(b)\ndef run(c):\n    step(c)\n    step(c + 1)\n",
    }
    call = {"f1": "f({})", "f1r": "db.Setting = f({})", "f2": "g({})", "f1early": "db.Setting = f({})", "f3": "cc({})", "unused": "f({})", "deadchain": "f({})", "deadchain1": "f({})"}
    for fk, fd in fdefs.items():
        c = call[fk].format
        upd = "n = f(n)\n" if fk in ("f1r", "f1early") else c("n") + "\nn += 1\n"
        mains = {
            "straight": c("d0.Setting") + "\n" + c("2") + "\ndb.Setting = 5\n",
            "once": c("d0.Setting") + "\ndb.Setting = 5\n",
            "break": "n = 0\nwhile True:\n" + ind(upd + "if n > d0.Setting:\n    break") + c("9") + "\n",
            "cond": "if d0.Setting > 1:\n" + ind(c("1")) + c("2") + "\n",
            "whilecount": "n = 0\nwhile n < d0.Setting:\n" + ind(upd) + "db.Setting = n\n",
            "forrange": "for i in range(d0.Setting):\n" + ind(c("i")) + c("7") + "\n",
            "lastiscall": "db.Setting = 5\n" + c("d0.Setting") + "\n" + c("3") + "\n",
            "yieldthenend": c("d0.Setting") + "\nyield_()\n" + c("1") + "\n",
        }
        for mk_, main in mains.items():
            src = fd + main
            out.append(mk("TERM", n, src, main_shape=mk_, funcs=fk, V=[0, 1, 2], K=16, T=3, cap=64))
            n += 1
    return out


# ----------------------------------------------------------------------------
# NAMES (identifier choices) -- C05

CONFUSABLE = ["f", "fa", "f_a", "f_end", "fend", "update", "update_display", "up", "lb", "lbwhile1", "lbend2", "end", "x1", "x10", "r17", "d9"]


def names_pairs():
    out = []
    n = 0
    for a, b in itertools.permutations(CONFUSABLE, 2):
        # skeleton 1: two functions, the first with an early return
        src = (
            f"def {a}(p):\n    if p > 1:\n        return p + 1\n    db.On = p\n    return p + 2\n"
            f"def {b}(q):\n    db.Mode = q\n    return {a}(q) + {a}(q + 1)\n"
            f"while True:\n    db.Setting = {b}(d0.Setting)\n    db.Setting = {b}(1) + {a}(2)\n    yield_()\n"
        )
        out.append(mk("NAMES2", n, src, names=[a, b], V=[0, 1, 2], K=8, T=2, cap=32, variants=[{"inline_functions": False}, {"inline_functions": False, "remove_labels": True}]))
        n += 1
    return out


CLASH_NAMES = ["pump", "Setting", "On", "Mode", "Sum", "Average", "Maximum", "Occupied", "Charge", "Quantity"]


def names_clash():
    """A function whose name is also the text of something that is not a label: a device name string, a word inside a device
    name, a hashed string, a logic type, a slot type, a batch method, a word of the original-code comment."""
    LT = {"Setting", "On", "Mode", "Charge", "Maximum", "Quantity"}
    ST = {"Occupied", "Quantity", "Charge"}
    BM = {"Sum", "Average", "Maximum"}
    out = []
    n = 0
    for nm in CLASH_NAMES:
        uses = {
            "devname": f'Batteries["{nm}"].On = p\n',
            "devname-word": f'Batteries["my {nm} x"].On = p\n',
            "hash": f'db.Setting = HASH("{nm}") + p\n',
            "hash-alone": f'hv = HASH("{nm}")\nBatteries[hv].Lock = p\n',
        }
        # a '#' inside a string operand is not the start of a comment: on a branch line the jump target follows it
        uses["hash-branch"] = f'if d1.Setting == HASH("{nm} #1"):\n    db.Lock = p\nelse:\n    db.Lock = 0\n'
        uses["hash-while"] = f'n = p\nwhile n != HASH("#{nm}"):\n    n = HASH("#{nm}")\n    db.Lock = 1\n'
        uses["hash-devname"] = f'Batteries["{nm} #2"].On = p\nif Batteries["# {nm}"].Charge.Sum > p:\n    db.Lock = 2\n'
        if nm in LT:
            uses["logic-store"] = f"d1.{nm} = p\n"
            uses["logic-load"] = f"db.Setting = d1.{nm} + p\n"
            uses["logic-batch"] = f"Batteries.{nm} = p\ndb.Setting = Batteries.{nm}.Sum\n"
        if nm in ST:
            uses["slot-load"] = f"db.Setting = d1.slot0.{nm} + p\n"
        if nm in BM:
            uses["batch-method"] = f"db.Setting = Batteries.Charge.{nm} + p\n"
        for un, use in uses.items():
            for where in ("in-function", "in-main", "both"):
                body = ind(use) if where != "in-main" else ""
                main = ind(use.replace(" p\n", " 2\n").replace("+ p", "+ 2").replace("> p:", "> 2:")) if where != "in-function" else ""
                src = f"def {nm}(p):\n    db.On = p\n{body}    return p + 1\nwhile True:\n    db.Mode = {nm}(d0.Setting)\n{main}    db.Mode = {nm}(3)\n    yield_()\n"
                out.append(mk("NAMECLASH", n, src, names=[nm], use=un, V=[0, 1, 2], K=10, T=2, cap=32))
                n += 1
    return out


def names_triples(step=1):
    out = []
    n = 0
    for a, b, c in itertools.islice(itertools.permutations(CONFUSABLE, 3), 0, None, step):
        src = (
            f"def {a}(p):\n    db.On = p\n"
            f"def {b}(q):\n    if q > 1:\n        return q\n    {a}(q)\n    {a}(q + 1)\n    return q + 5\n"
            f"def {c}(z):\n    db.Mode = z\n    return {b}(z) + {b}(z + 1)\n"
            f"while True:\n    db.Setting = {c}(d0.Setting)\n    db.Setting = {c}(1) + {b}(0)\n    {a}(7)\n    yield_()\n"
        )
        out.append(mk("NAMES3", n, src, names=[a, b, c], V=[0, 1, 2], K=10, T=2, cap=16, variants=[{"inline_functions": False}, {"inline_functions": False, "remove_labels": True}]))
        n += 1
    return out


# ----------------------------------------------------------------------------
# Witness families: small dedicated families for constructs that are the subject
# of an open finding (DESIGN 1.7, 3.9).  They are part of every run; a witness
# that fails with its recorded symptom prints KNOWN-FINDING, any other failure
# is a VIOLATION, a passing witness prints nothing.

def w_alias():
    """F-01a: y = x where x is reassigned later."""
    srcs = [
        "x = d0.Setting\ny = x\nx = x + 1\ndb.Setting = y\ndb.On = x\n",
        "x = d0.Setting\ny = x\nx += 5\ndb.Setting = y * 10 + x\n",
        "def f(a):\n    b = a\n    a = a + 1\n    db.Setting = b\n    db.On = a\nwhile True:\n    f(d0.Setting)\n    f(2)\n    yield_()\n",
        "x = d0.Setting\nwhile True:\n    y = x\n    x = x + 1\n    db.Setting = y\n    db.On = x\n    yield_()\n",
        "x = d0.Setting\ny = x\nif d1.Setting > 1:\n    x = 7\ndb.Setting = y\ndb.On = x\n",
        # a global passed as argument to a function that reassigns the global: the inlined parameter aliases the global's register
        "G = 0\ndef f(a):\n    global G\n    G = G + 1\n    db.On = a\nwhile True:\n    f(G)\n    db.Setting = G\n    yield_()\n",
        "G = d0.Setting\ndef f(a, b):\n    global G\n    G = G + b\n    return a * 10\nwhile True:\n    db.On = f(G, 2)\n    db.Setting = G\n    yield_()\n",
    ]
    return [mk("W-F01a", i, s, V=[0, 1, 2, 3], K=8, T=2, cap=64) for i, s in enumerate(srcs)]


def w_forctl():
    """F-01b: continue / break inside for loops."""
    srcs = [
        "for i in range(4):\n    if i == 1:\n        continue\n    db.Setting = i\n",
        "for i in range(4):\n    if i == d0.Setting:\n        continue\n    db.Setting = i\n",
        "for i in range(4):\n    if i == 2:\n        break\n    db.Setting = i\ndb.On = 1\n",
        "for i in range(4):\n    if i == d0.Setting:\n        break\n    db.Setting = i\ndb.On = 1\n",
        "for v in [3, 9, 12]:\n    if v == 9:\n        continue\n    db.Setting = v\n",
        "for v in [3, 9, 12]:\n    if v == d0.Setting:\n        break\n    db.Setting = v\ndb.On = 1\n",
        "def f(n):\n    for i in range(n):\n        if i == 1:\n            continue\n        db.Setting = i\nwhile True:\n    f(d0.Setting)\n    f(3)\n    yield_()\n",
    ]
    return [mk("W-F01b", i, s, V=[0, 1, 2, 3, 9], K=8, T=2, cap=64) for i, s in enumerate(srcs)]


def w_loopvar():
    """F-01c: loop variable read after the loop; F-01h: a loop variable reused by a later for loop."""
    srcs = [
        "for i in range(3):\n    db.On = i\ndb.Setting = i\n",
        "for i in range(d0.Setting):\n    db.On = i\ndb.Setting = i\n",
        "for i in range(3):\n    db.On = i\nfor i in range(2):\n    db.Setting = i\n",
        "for i in range(1, 4):\n    db.On = i\nfor i in range(d0.Setting):\n    db.Setting = i\n",
        "def f(n):\n    for i in range(n):\n        db.On = i\n    for i in range(2):\n        db.Setting = i\nwhile True:\n    f(d0.Setting)\n    f(3)\n    yield_()\n",
    ]
    return [mk("W-F01ch", i, s, V=[0, 1, 2, 3], K=10, T=2, cap=64) for i, s in enumerate(srcs)]


def w_stack0():
    """F-01d: push ra at sp = 0 overwrites user data in stack[0]."""
    srcs = [
        "def g(a):\n    db.On = a\ndef f(a):\n    g(a)\n    g(a + 1)\nstack[0] = d0.Setting\nwhile True:\n    f(1)\n    f(2)\n    db.Setting = stack[0]\n    yield_()\n",
        "def g(a):\n    return a + 1\ndef f(a):\n    return g(a) + g(a + 1)\nstack[0] = 42\nwhile True:\n    db.On = f(1) + f(d0.Setting)\n    db.Setting = stack[0]\n    yield_()\n",
    ]
    return [mk("W-F01d", i, s, V=[0, 1, 2, 3], K=10, T=2, cap=64, variants=[{"inline_functions": False}]) for i, s in enumerate(srcs)]


def w_forlist_nested():
    """F-01g: nested for-over-list loops (inner jal overwrites the outer body's ra)."""
    srcs = [
        "for v in [3, 9]:\n    for w in [1, 2]:\n        db.Setting = v + w\n    db.On = v\n",
        "for v in [3, 9]:\n    for w in [1, 2]:\n        db.Setting = v * d0.Setting + w\n",
        "def f(a):\n    for v in [1, 2]:\n        db.Setting = v + a\nwhile True:\n    for w in [10, 20]:\n        f(w)\n    f(d0.Setting)\n    yield_()\n",
        "def f(a):\n    for v in [1, 2]:\n        db.Setting = v + a\n    db.On = a\nwhile True:\n    f(d0.Setting)\n    f(3)\n    yield_()\n",
    ]
    return [mk("W-F01g", i, s, V=[0, 1, 2, 3], K=10, T=2, cap=64) for i, s in enumerate(srcs)]


def w_list1():
    """F-01f: single-element list with run-time index through a variable."""
    srcs = [
        "arr = [10]\nk = d0.Setting\nh = arr[k]\ndb.Setting = h\n",
        "arr = [10]\nwhile True:\n    h = arr[d0.Setting]\n    db.Setting = h + 1\n    yield_()\n",
    ]
    return [mk("W-F01f", i, s, V=[0, 0], K=6, T=2, cap=16) for i, s in enumerate(srcs)]


def w_namedslotwrite():
    """F-01l: a slot write to the batch devices of one name is emitted as a write to every device of the type (the name is dropped)."""
    srcs = [
        'ArcFurnaces["S"].slot0.Occupied = d0.Setting\n',
        'ArcFurnaces["S"].Export.Quantity = 2\nArcFurnaces.slot1.Quantity = 3\n',
        'nm = d0.Setting\nArcFurnaces[nm].Import.Occupied = 1\n',
        'def f(a):\n    ArcFurnaces["S"].slot1.Occupied = a\nwhile True:\n    f(d0.Setting)\n    f(2)\n    yield_()\n',
    ]
    return [mk("W-F01l", i, s, V=[0, 1, 2, 3], K=6, T=2, cap=32) for i, s in enumerate(srcs)]


def w_forstate():
    """F-01m: a for-range loop keeps no private copy of its state: assigning to the loop variable, the bound variable or the step
    variable inside the body, or reusing the loop variable in a nested loop, changes the iteration."""
    forms = {
 "loopvar-modified": "for i in range(4):\n    i += 2\n    db.On = i\n",
 "bound-modified": "n = 3\nfor i in range(n):\n    n = 1\n    db.On = i\ndb.Setting = n\n",
 "step-modified": "st = 1\nfor i in range(0, 4, st):\n    st = 2\n    db.On = i\n",
 "for-nested-same-var": "for i in range(2):\n    for i in range(3):\n        db.On = i\n    db.Setting = i\n",
    }
    out = []
    for i, (name, src) in enumerate(forms.items()):
        out.append(mk("W-F01m", i, src, tag=name, V=[0, 1, 2, 3], K=12, T=2, cap=64))
        out.append(mk("W-F01m", i, "def body(p0):\n" + ind(src) + "while True:\n    body(d0.Setting)\n    body(1)\n    yield_()\n", tag=name + "/func", V=[0, 1, 2, 3], K=14, T=2, cap=64))
    return out


def w_alias_lifetime():
    """F-04a: alias in a function scope does not extend the lifetime."""
    srcs = [
        "def f():\n    x = d0.Setting\n    y = x\n    t = d1.Setting\n    db.On = t\n    db.Setting = y\nwhile True:\n    f()\n    f()\n    yield_()\n",
        "def build():\n    pid = Batteries.Minimum.ReferenceId\n    ps = Stack(ref_id=pid)\n    ps[ps[63] + 1] = 77\nwhile True:\n    build()\n    build()\n    yield_()\n",
        "def w(p):\n    rid = d0.ReferenceId\n    dv = GasSensor(ref_id=rid)\n    v0 = d0.Setting\n    db.Setting = dv.Pressure + p\n    db.On = v0\n    db.On = dv.Temperature\nwhile True:\n    w(d1.Setting)\n    w(2)\n    yield_()\n",
        "def work():\n    rid = Batteries.Minimum.ReferenceId\n    bt = Battery(ref_id=rid)\n    db.Setting = bt.Charge\n    bt.On = 1\n    db.On = bt.Ratio\nwhile True:\n    work()\n    work()\n    yield_()\n",
    ]
    return [mk("W-F04a", i, s, V=[0, 1, 2, 3], K=8, T=2, cap=64, variants=[{}, {"inline_functions": False}]) for i, s in enumerate(srcs)]


def w_tailcall():
    """F-02a: tail-call option on functions with another call / an early return."""
    srcs = [
        "def f(a):\n    db.On = a\ndef g(p):\n    f(p)\n    db.Mode = p\n    f(p + 1)\nwhile True:\n    g(d0.Setting)\n    g(1)\n    f(5)\n    yield_()\n",
        "def f(a):\n    db.On = a\ndef g(p):\n    if p > 1:\n        return\n    db.Mode = p\n    f(p + 1)\nwhile True:\n    g(d0.Setting)\n    g(1)\n    f(5)\n    yield_()\n",
    ]
    return [mk("W-F02a", i, s, V=[0, 1, 2, 3], K=10, T=2, cap=64, variants=[{"inline_functions": False}, {"inline_functions": False, "tail_call_optimization": True}]) for i, s in enumerate(srcs)]


# ----------------------------------------------------------------------------
# FUNC2: calling mechanics (C06) -- leaf/mid call shapes

LEAF_RET = {
    "none": "db.On = {t}\n",
    "end": "return {t}\n",
    "early": "if {t} > 2:\n    return {t} - 1\ndb.On = {t}\nreturn {t} + 1\n",
    "multi": "if {t} > 3:\n    return 30\nif {t} > 1:\n    db.On = {t}\n    return 20\ndb.Mode = {t}\nreturn 10 + {t}\n",
    "loop": "for q in range(3):\n    if q == {t}:\n        return q + 10\n    db.On = q\nreturn 0 - 1\n",
    "bare": "if {t} > 1:\n    return\ndb.On = {t}\n",
    # the function ends inside a loop whose last statement is a conditional return / with returns closing a trailing if-else
    "tailloop": "i = 0\nwhile True:\n    i += 1\n    db.On = i\n    if i * 2 >= {t}:\n        return i + 10\n",
    "tailifelse": "db.On = {t}\nif {t} > 2:\n    return {t} - 1\nelse:\n    return {t} + 1\n",
}
LEAF_HASRET = {"end", "early", "multi", "loop", "tailloop", "tailifelse"}
MID_USE = ["stmt", "assign", "expr", "tailstmt", "retcall", "inloop", "inif", "twice_inside", "early_before", "early_after", "early_between", "ret_ifelse"]


def func2(tier="quick"):
    out = []
    n = 0
    names = ["a", "b", "c", "e", "g"]
    for ar in (0, 1, 2, 4, 5):
        params = names[:ar]
        enc = _enc(params)
        for rk, rt in LEAF_RET.items():
            has = rk in LEAF_HASRET
            leaf = fdef("leaf", params, "t = " + enc + "\n" + rt.format(t="t"))
            for use in MID_USE:
                if use in ("assign", "expr", "retcall") and not has:
                    continue
                args = ["p", "2", "p + 1", "7", "x"][:ar]
                args_g = ["p", "2", "p + 1", "7", "XG"][:ar]
                call = f"leaf({', '.join(args_g)})"
                for locals_live in (False, True):
                    pre = "m = p * 3\n" if locals_live else ""
                    post = "db.Mode = m + p\n" if locals_live else "db.Mode = p\n"
                    if use == "stmt":
                        body = pre + call + "\n" + post
                        mret = False
                    elif use == "assign":
                        body = pre + f"u = {call}\n" + post + "return u + 100\n"
                        mret = True
                    elif use == "expr":
                        body = pre + post + f"return {call} * 2 + p\n"
                        mret = True
                    elif use == "tailstmt":
                        body = pre + post + call + "\n"
                        mret = False
                    elif use == "retcall":
                        body = pre + post + f"return {call}\n"
                        mret = True
                    elif use == "inloop":
                        body = pre + "for w in range(2):\n" + ind(call if not has else f"db.Lock = {call}") + post
                        mret = False
                    elif use == "inif":
                        body = pre + "if p > 1:\n" + ind(call if not has else f"db.Lock = {call}") + post
                        mret = False
                    elif use == "early_before":
                        # mid: early return BEFORE the inner call (ra is saved at entry and must be restored on every exit)
                        if has:
                            body = pre + "if p > 2:\n    return 77\n" + f"u = {call}\n" + post + "return u + 100\n"
                        else:
                            body = pre + "if p > 2:\n    return\n" + call + "\n" + post
                        mret = has
                    elif use == "early_after":
                        if has:
                            body = pre + f"u = {call}\nif u > 12:\n    return u\n" + post + "return u + 100\n"
                        else:
                            body = pre + call + "\nif p > 1:\n    return\n" + post
                        mret = has
                    elif use == "ret_ifelse":
                        # mid calls the leaf and then returns from the branches of a trailing if / elif / else
                        if has:
                            body = pre + f"u = {call}\n" + post + "if u > 12:\n    return u\nelif p == 1:\n    return u + 50\nelse:\n    return u + 100\n"
                        else:
                            body = pre + call + "\n" + post + "if p > 1:\n    return 7\nelse:\n    return p + 20\n"
                        mret = True
                    elif use == "early_between":
                        c2 = f"leaf({', '.join(['1', 'p', '3', 'p', '5'][:ar])})"
                        if has:
                            body = pre + f"u = {call}\nif p == 1:\n    return u + 5\nv = {c2}\n" + post + "return u + v\n"
                        else:
                            body = pre + call + "\nif p == 1:\n    return\n" + c2 + "\n" + post
                        mret = has
                    else:  # twice_inside
                        c2 = f"leaf({', '.join(['1', 'p', '3', 'p', '5'][:ar])})"
                        body = pre + (f"u = {call}\nv = {c2}\n" + post + "return u + v\n" if has else call + "\n" + c2 + "\n" + post)
                        mret = has
                    mid = fdef("mid", ["p"], body)
                    for leaf_also_main in (False, True):
                        for mid_twice in (False, True):
                            if tier == "quick" and (n % 3) and not (use in ("tailstmt", "retcall", "early_before", "early_after", "early_between", "ret_ifelse") and not locals_live):
                                n += 1
                                continue
                            m1 = "db.Setting = mid(d0.Setting)\n" if mret else "mid(d0.Setting)\n"
                            m2 = ("db.Setting = mid(x)\n" if mret else "mid(x)\n") if mid_twice else ""
                            lm = ""
                            if leaf_also_main:
                                la = ["x", "1", "3", "x", "5"][:ar]
                                lm = (f"db.Open = leaf({', '.join(la)})\n" if has else f"leaf({', '.join(la)})\n")
                            main = "x = d1.Setting\n" + m1 + lm + m2 + "yield_()\n"
                            src = "XG = 5\n" + leaf + mid + "while True:\n" + ind(main)
                            out.append(mk("FUNC2", n, src, tag=f"{ar}/{rk}/{use}/{locals_live}/{leaf_also_main}/{mid_twice}", V=[0, 1, 2, 3], K=10, T=2, cap=64))
                            n += 1
    return out


def func3(tier="quick"):
    """Deep chains: top -> mid -> low -> leaf (depth 4), every level with a live local and a return value;
    each level called once or twice (inlined or not)."""
    out = []
    n = 0
    for mask in range(16):
        tw = [(mask >> i) & 1 for i in range(4)]
        for ret in (True, False):
            if ret:
                leaf = "def leaf(a, b):\n    db.On = a * 10 + b\n    return a + b\n"
                low = "def low(p):\n    m = p + 1\n    u = leaf(p, 2)\n" + ("    u = u + leaf(m, 3)\n" if tw[0] else "") + "    return u + m\n"
                mid = "def mid(q):\n    k = q * 2\n    v = low(q)\n" + ("    v = v + low(k)\n" if tw[1] else "") + "    db.Mode = k\n    return v + k\n"
                top = "def top(z):\n    j = z + 5\n    w = mid(z)\n" + ("    w = w + mid(j)\n" if tw[2] else "") + "    return w + j\n"
                main = "x = d1.Setting\ndb.Setting = top(d0.Setting)\n" + ("db.Setting = top(x)\n" if tw[3] else "") + "yield_()\n"
            else:
                leaf = "def leaf(a, b):\n    db.On = a * 10 + b\n"
                low = "def low(p):\n    m = p + 1\n    leaf(p, 2)\n" + ("    leaf(m, 3)\n" if tw[0] else "") + "    db.Lock = m\n"
                mid = "def mid(q):\n    k = q * 2\n    low(q)\n" + ("    low(k)\n" if tw[1] else "") + "    db.Mode = k\n"
                top = "def top(z):\n    j = z + 5\n    mid(z)\n" + ("    mid(j)\n" if tw[2] else "") + "    db.Open = j\n"
                main = "x = d1.Setting\ntop(d0.Setting)\n" + ("top(x)\n" if tw[3] else "") + "yield_()\n"
            src = leaf + low + mid + top + "while True:\n" + ind(main)
            out.append(mk("FUNC3", n, src, tag=f"{mask}/{ret}", V=[0, 1, 2], K=14, T=2, cap=32))
            n += 1
    return out


def names_lib():
    """NAMES skeleton 3: one library module (with and without alias) beside a main-file function; module name and
    function names drawn from the confusable alphabet (dotted labels '<module>.<function>')."""
    out = []
    n = 0
    mods = ["util", "up", "f", "lb"]
    for mod in mods:
        for a, b in itertools.permutations(["f", "show", "util_show", "up", "update", "date", "end", "fend"], 2):
            if a == mod or b == mod:
                continue
            lib = f"def {a}(p):\n    if p > 1:\n        return p + 1\n    db.On = p\n    return p + 2\ndef twice(q):\n    return {a}(q) + {a}(q + 1)\n"
            for alias in (None, "m"):
                bind = alias or mod
                imp = f"from library import {mod}" + (f" as {alias}" if alias else "") + "\n"
                main = (
                    imp
                    + f"def {b}(q):\n    db.Mode = q\n    return q + 1\n"
                    + f"while True:\n    db.Setting = {bind}.twice(d0.Setting) + {b}(1)\n    db.Setting = {bind}.{a}(2) + {b}(3)\n    yield_()\n"
                )
                ref_main = main.replace(imp, "")
                out.append(mk("NAMESLIB", n, main, modules={mod: lib}, ref_src=ref_main, ref_modules={mod: (lib, bind)}, names=[a, b], V=[0, 1, 2], K=8, T=2, cap=32))
                n += 1
    return out


# ----------------------------------------------------------------------------
# LIB (multi-module programs) -- C13, also C04/C07

def _lib_module(pre, ret, twice, never, mainblock, init, effect_attr, second=False):
    """Source of one library module.  pre = '' for the module form, '<mod>_' for the merged form."""
    P = lambda n: pre + n
    # 'limit' is assigned once, to a constant, at module level (a candidate for constant propagation); unused code assigns it too
    # module-level code has an externally visible effect: the order in which the libraries are initialised is observable
    s = f"{P('count')} = {init}\n{P('limit')} = 50\ndb.Volume = {ord(effect_attr[0])}\n"
    body = f"global {P('count')}\n{P('count')} = {P('count')} + k\nif {P('count')} < {P('limit')}:\n    db.{effect_attr} = {P('count')}\n" + (f"return {P('count')} * 2 + k\n" if ret else "")
    s += fdef(P("bump"), ["k"], body)
    if twice:
        if ret:
            s += fdef(P("twice"), ["k"], f"u = {P('bump')}(k)\nw = {P('bump')}(k + 1)\nreturn u + w\n")
        else:
            s += fdef(P("twice"), ["k"], f"{P('bump')}(k)\n{P('bump')}(k + 1)\n")
    if second:
        # a second module-level variable, defined after the first function (its source lines do not overlap the first one's)
        s += f"{P('total')} = 5\n" + fdef(P("accum"), ["k"], f"global {P('total')}\n{P('total')} = {P('total')} + k * 3\ndb.Color = {P('total')}\n")
    if never:
        s += fdef(P("never"), ["z"], f"global {P('limit')}\n{P('limit')} = 1\ndb.Open = z + {P('count')}\n")
    if mainblock and not pre:
        # the block calls the library's own functions (a self-test): those calls must not count anywhere
        s += 'if __name__ == "__main__":\n    limit = 2\n    db.Open = 77\n    while True:\n        ' + ("db.Open = bump(3)" if ret else "bump(3)") + '\n        yield_()\n'
    return s


def lib(tier="quick"):
    out = []
    n = 0
    for nmods in (1, 2):
        for ret in (False, True):
            for twice in (False, True):
                for collide in (False, True):
                    for alias_a in (False, True):
                        for flags in range(16):
                            never, mainblock, init_dev, second = flags & 1, flags & 2, flags & 4, bool(flags & 8)
                            for pattern in ("once", "twice", "mixed"):
                                if second and pattern != "mixed":
                                    continue
                                if tier == "quick" and (n % 2) and pattern != "mixed":
                                    n += 1
                                    continue
                                ma, mb = "aa", "bb"
                                bind_a = "la" if alias_a else ma
                                bind_b = mb
                                mods, rmods, merged = {}, {}, ""
                                init_a = "d1.Setting" if init_dev else "0"
                                mods[ma] = _lib_module("", ret, twice, never, mainblock, init_a, "On", second)
                                rmods[ma] = (mods[ma], bind_a)
                                merged_a = _lib_module(ma + "_", ret, twice, never, False, init_a, "On", second)
                                merged += merged_a
                                imp = f"from library import {ma}" + (f" as {bind_a}" if alias_a else "") + "\n"
                                swap = nmods == 2 and bool(flags & 2)  # second library imported first (non-alphabetical import order)
                                if nmods == 2:
                                    # second module: same global / function names as the first one (collision dimension is about main)
                                    mods[mb] = _lib_module("", ret, False, False, mainblock, "10", "Mode")
                                    rmods[mb] = (mods[mb], bind_b)
                                    merged_b = _lib_module(mb + "_", ret, False, False, False, "10", "Mode")
                                    merged += merged_b
                                    imp = (f"from library import {mb}\n" + imp) if swap else (imp + f"from library import {mb}\n")
                                    if swap:
                                        # the merged single file and the reference run the libraries in import order
                                        merged = merged_b + merged_a
                                        rmods = {mb: rmods[mb], ma: rmods[ma]}
                                gname = "count" if collide else "mine"
                                fname = "bump" if collide else "local"
                                mainfn = f"{gname} = 100\n" + fdef(fname, ["q"], f"global {gname}\n{gname} = {gname} + q\ndb.Lock = {gname}\n")

                                def calls(A, B):
                                    c = []
                                    f_a = A + ("twice" if twice else "bump")
                                    if ret:
                                        c.append(f"db.Setting = {f_a}(x)")
                                        if pattern in ("twice", "mixed"):
                                            c.append(f"db.Setting = {A}bump(1) + x")
                                    else:
                                        c.append(f"{f_a}(x)")
                                        if pattern in ("twice", "mixed"):
                                            c.append(f"{A}bump(1)")
                                    if B:
                                        c.append((f"db.Setting = {B}bump(x) + 1" if ret else f"{B}bump(x)"))
                                        if pattern == "twice":
                                            c.append((f"db.Setting = {B}bump(2)" if ret else f"{B}bump(2)"))
                                    if second:
                                        c.append(f"{A}accum(x)")
                                        c.append(f"{A}accum(1)")
                                    c.append(f"{fname}(x)")
                                    if pattern != "once":
                                        c.append(f"{fname}(1)")
                                    return "\n".join(c) + "\n"

                                loop = lambda A, B: "while True:\n" + ind("x = d0.Setting\n" + calls(A, B) + "yield_()\n")
                                main = imp + mainfn + loop(bind_a + ".", (bind_b + ".") if nmods == 2 else None)
                                ref_main = mainfn + loop(bind_a + ".", (bind_b + ".") if nmods == 2 else None)
                                merged_src = merged + mainfn + loop(ma + "_", (mb + "_") if nmods == 2 else None)
                                twin = None
                                if never:
                                    twin = dict(mods)
                                    twin[ma] = _lib_module("", ret, twice, False, mainblock, init_a, "On", second)
                                out.append(mk("LIB", n, main, modules=mods, ref_src=ref_main, ref_modules=rmods, merged_src=merged_src, twin_modules=twin,
                                              tag=f"{nmods}/{ret}/{twice}/{collide}/{alias_a}/{flags}/{pattern}", V=[0, 1, 2], K=12, T=2, cap=48))
                                n += 1
    return out


# ----------------------------------------------------------------------------
# DEAD: compile-time constant tests (dead-branch pruning must only drop effect-free code) -- C01, C07

def dead(tier="quick"):
    out = []
    n = 0
    flags = [("K = 0\n", "K", False), ("K = 1\n", "K", True), ("", "False", False), ("", "True", True), ("K = 2 > 1\n", "K", True), ("K = 3 - 3\n", "K", False), ("A = 2\nK = A * 2 == 5\n", "K", False)]
    fdefs = "def only(a):\n    db.On = a\n    d1.Setting = a + 1\n"          # called only from the guarded branch
    fboth = "def both(b):\n    db.Mode = b\n"                                   # called from guarded branch and elsewhere
    fret = "def val(c):\n    db.Lock = c\n    return c * 2\n"
    shapes = {
        "if": "if {T}:\n    {A}\n",
        "ifelse": "if {T}:\n    {A}\nelse:\n    {B}\n",
        "ifnot": "if not {T}:\n    {A}\nelse:\n    {B}\n",
        "and": "if {T} and x > 1:\n    {A}\nelse:\n    {B}\n",
        "nested": "if x > 1:\n    if {T}:\n        {A}\n    db.Open = 1\n",
        "elif": "if x > 2:\n    db.Open = 2\nelif {T}:\n    {A}\nelse:\n    {B}\n",
        "ternary": "db.Setting = val(1) if {T} else 9\n",
        "while": "while {T}:\n    {A}\n    break\n",
    }
    # a function whose body contains an @emit_code call (raw lines): for the reference executor the raw line is the store it stands for
    femit = "@emit_code\ndef raw():\n    return [\"s db Open 44\"]\ndef onlye(a):\n    db.On = a\n    raw()\n"
    femit_ref = "def raw():\n    db.Open = 44\ndef onlye(a):\n    db.On = a\n    raw()\n"
    acts = {"write": ("db.Setting = x + 1", "db.Setting = x + 2"), "only": ("only(x)", "db.Setting = 3"), "onlyelse": ("db.Setting = 4", "only(x)"), "both": ("both(x)", "both(7)"), "val": ("db.Setting = val(x)", "db.Setting = 8"), "emit": ("onlye(x)", "db.Setting = 3")}
    for (pre, T, truth) in flags:
        for sn, sh in shapes.items():
            for an, (A, B) in acts.items():
                if sn == "ternary" and an != "val":
                    continue
                if tier == "quick" and (n % 2) and an in ("write", "both"):
                    n += 1
                    continue
                body = sh.format(T=T, A=A, B=B)
                # which of A / B can run?  (the harness knows the truth value of the flag)
                liveA = {"if": truth, "ifelse": truth, "ifnot": not truth, "and": True, "nested": truth, "elif": truth, "ternary": True, "while": truth}[sn]
                liveB = {"if": False, "ifelse": not truth, "ifnot": truth, "and": True, "nested": False, "elif": not truth, "ternary": False, "while": False}[sn]
                live_call = (liveA and "(" in A.split("=")[-1] and any(f in A for f in ("only(", "both(", "val(", "onlye("))) or (liveB and any(f in B for f in ("only(", "both(", "val(", "onlye("))) or ("both(" in A + B)
                defs = ""
                if "only(" in body:
                    defs += fdefs
                if "both(" in body:
                    defs += fboth
                if "val(" in body:
                    defs += fret
                if "onlye(" in body:
                    defs += femit
                tail = "both(5)\n" if "both(" in body else ""
                # (1) endless main: no interaction with finding F-07
                main = "x = d0.Setting\n" + body + tail + "yield_()\n"
                src = defs + pre + "while True:\n" + ind(main)
                fam = "W-F01j" if sn == "ternary" else "DEAD"  # a conditional expression evaluates both arms (finding F-01j)
                out.append(mk(fam, n, src, tag=f"loop/{T}/{sn}/{an}", **({"ref_src": src.replace(femit, femit_ref)} if femit in src else {}), V=[0, 1, 2, 3], K=10, T=2, cap=64))
                # (2) terminating main
                src2 = defs + pre + "x = d0.Setting\n" + body + tail + "db.Open = 5\n"
                # terminating main: with a live call an out-of-line function may follow the main code (finding F-07)
                fam2 = "W-F01j" if sn == "ternary" else ("W-F07" if live_call else "DEAD-TERM")
                out.append(mk(fam2, n, src2, tag=f"term/{T}/{sn}/{an}", **({"ref_src": src2.replace(femit, femit_ref)} if femit in src2 else {}), V=[0, 1, 2, 3], K=10, T=2, cap=64))
                # (3) inside a function body
                src3 = defs + pre + "def work(x):\n" + ind(body + tail + "db.Open = x\n") + "while True:\n    work(d0.Setting)\n    work(2)\n    yield_()\n"
                out.append(mk(fam, n, src3, tag=f"func/{T}/{sn}/{an}", **({"ref_src": src3.replace(femit, femit_ref)} if femit in src3 else {}), V=[0, 1, 2, 3], K=10, T=2, cap=64))
                n += 1
    return out



# ----------------------------------------------------------------------------
# SYNTAX: one program per Python construct, inside and outside the supported subset -- whatever is accepted must behave like the
# source (C01); most constructs outside the subset are refused, which is fine

SYNTAX_FORMS = {
 "swap": "a = d0.Setting\nb = d1.Setting\na, b = b, a\ndb.Setting = a\ndb.On = b\n",
 "tuple-assign": "a, b = d0.Setting, 5\ndb.Setting = a + b\n",
 "multi-assign": "a = b = d0.Setting\na = a + 1\ndb.Setting = a\ndb.On = b\n",
 "chained-cmp": "x = d0.Setting\nif 0 < x < 3:\n    db.Setting = 1\nelse:\n    db.Setting = 2\n",
 "chained-cmp-val": "x = d0.Setting\ndb.Setting = 0 < x < 3\n",
 "while-else": "x = d0.Setting\nwhile x < 3:\n    x += 1\nelse:\n    db.On = 9\ndb.Setting = x\n",
 "for-else": "for i in range(3):\n    db.On = i\nelse:\n    db.Setting = 7\n",
 "aug-dev": "db.Setting += 2\ndb.On = 1\n",
 "aug-dev2": "d1.Setting *= d0.Setting\n",
 "kwargs": "def f(a, b):\n    db.Setting = a * 10 + b\nwhile True:\n    f(b=d0.Setting, a=2)\n    f(1, 2)\n    yield_()\n",
 "default-arg": "def f(a, b=7):\n    db.Setting = a * 10 + b\nwhile True:\n    f(d0.Setting)\n    f(1, 2)\n    yield_()\n",
 "nested-def": "def outer(a):\n    def inner(b):\n        return b + 1\n    return inner(a) * 2\nwhile True:\n    db.Setting = outer(d0.Setting)\n    db.On = outer(2)\n    yield_()\n",
 "pass": "x = d0.Setting\nif x:\n    pass\nelse:\n    db.On = 1\ndb.Setting = x\n",
 "docstring": "def f(a):\n    \"\"\"doc\"\"\"\n    return a + 1\nwhile True:\n    db.Setting = f(d0.Setting)\n    db.On = f(1)\n    yield_()\n",
 "global-stmt": "count = 0\ndef f():\n    global count\n    count = count + 1\nwhile True:\n    f()\n    f()\n    db.Setting = count\n    yield_()\n",
 "ternary-nested": "x = d0.Setting\ndb.Setting = 1 if x > 2 else (2 if x > 1 else 3)\n",
 "bool-ops-val": "x = d0.Setting\ny = d1.Setting\ndb.Setting = (x and y) + (x or y)\n",
 "not-val": "x = d0.Setting\ndb.Setting = not x\n",
 "neg-pow": "x = d0.Setting\ndb.Setting = -x ** 2\n",
 "floordiv": "x = d0.Setting\ndb.Setting = (x + 7) // 2\ndb.On = -7 // 2\n",
 "mod-neg": "x = d0.Setting\ndb.Setting = (x - 5) % 3\ndb.On = -7 % 3\n",
 "shift": "x = d0.Setting\ndb.Setting = (x + 1) << 2\ndb.On = 256 >> x\n",
 "bitops": "x = d0.Setting\ndb.Setting = (x | 4) ^ (x & 1)\n",
 "is-none": "x = d0.Setting\nif x is None:\n    db.On = 1\ndb.Setting = x\n",
 "in-list": "x = d0.Setting\nif x in [1, 2]:\n    db.On = 1\ndb.Setting = x\n",
 "while-break-else": "x = d0.Setting\nwhile True:\n    x += 1\n    if x > 2:\n        break\ndb.Setting = x\n",
 "return-none": "def f(a):\n    if a > 1:\n        return\n    db.On = a\nwhile True:\n    f(d0.Setting)\n    f(0)\n    yield_()\n",
 "early-return-val-loop": "def f(a):\n    for i in range(5):\n        if i == a:\n            return i * 10\n    return -1\nwhile True:\n    db.Setting = f(d0.Setting)\n    db.On = f(9)\n    yield_()\n",
 "elif-chain": "x = d0.Setting\nif x == 0:\n    db.Setting = 10\nelif x == 1:\n    db.Setting = 11\nelif x == 2:\n    db.Setting = 12\nelse:\n    db.Setting = 13\n",
 "compare-chain-eq": "x = d0.Setting\ndb.Setting = x == 1 == 1\n",
 "int-cast": "x = d0.Setting\ndb.Setting = int(x / 2)\n",
 "round": "x = d0.Setting\ndb.Setting = round(x / 2)\n",
 "abs-min-max": "x = d0.Setting\ndb.Setting = abs(x - 2) + min(x, 1) + max(x, 2)\n",
 "float-lit": "x = d0.Setting\ndb.Setting = x * 0.1 + 1e-3\n",
 "range-neg-step": "for i in range(3, -1, -1):\n    db.On = i\n",
 "nested-while-continue": "x = d0.Setting\nn = 0\nwhile n < 3:\n    n += 1\n    if n == x:\n        continue\n    db.On = n\n",
 "string-const": "NAME = 'Pump A'\nBatteries[NAME].On = d0.Setting\n",
 "list-len": "arr = [4, 5, 6]\ndb.Setting = len(arr) + d0.Setting\n",
 "list-for-idx": "arr = [4, 5, 6]\nfor i in range(len(arr)):\n    db.On = arr[i]\n",
 "neg-index": "arr = [4, 5, 6]\ndb.Setting = arr[-1] + d0.Setting\n",
 "const-fold-div0": "x = d0.Setting\ndb.Setting = x + 1 / 0\n",
 "assert": "x = d0.Setting\nassert x >= 0\ndb.Setting = x\n",
 "del": "x = d0.Setting\ndb.Setting = x\ndel x\n",
 "lambda": "f = lambda a: a + 1\ndb.Setting = f(d0.Setting)\n",
 "star-args": "def f(*a):\n    db.Setting = 1\nf(1, 2)\n",
 "walrus": "if (x := d0.Setting) > 1:\n    db.Setting = x\n",
 "fstring": "x = d0.Setting\nBatteries[f'P{1}'].On = x\n",
 "true-div-int": "x = d0.Setting\ndb.Setting = 7 / 2 + x\n",
 "aug-all": "x = d0.Setting\nx -= 1\nx *= 3\nx /= 2\nx //= 1\nx %= 5\nx **= 2\nx <<= 1\nx >>= 1\nx |= 8\nx &= 12\nx ^= 5\ndb.Setting = x\n",
 "redef-func": "def f(a):\n    db.On = a\ndef f(a):\n    db.Setting = a\nwhile True:\n    f(d0.Setting)\n    f(1)\n    yield_()\n",
 "call-before-def": "def g(a):\n    return h(a) + 1\ndef h(a):\n    return a * 2\nwhile True:\n    db.Setting = g(d0.Setting)\n    db.On = g(1)\n    yield_()\n",
 "param-assign": "def f(a):\n    a = a + 1\n    db.Setting = a\nwhile True:\n    x = d0.Setting\n    f(x)\n    f(x)\n    db.On = x\n    yield_()\n",
 "shadow-global": "v = 5\ndef f(a):\n    v = a + 1\n    db.Setting = v\nwhile True:\n    f(d0.Setting)\n    f(1)\n    db.On = v\n    yield_()\n",
 "global-read-in-func": "v = d1.Setting\ndef f(a):\n    db.Setting = v + a\nwhile True:\n    f(d0.Setting)\n    f(1)\n    yield_()\n",
 "tuple-return": "def f(a):\n    return a, a + 1\nwhile True:\n    p, q = f(d0.Setting)\n    db.Setting = p + q\n    yield_()\n",
 "try": "try:\n    db.Setting = d0.Setting\nexcept Exception:\n    db.On = 1\n",
 "with": "with open('x') as f:\n    db.Setting = 1\n",
 "class": "class A:\n    pass\ndb.Setting = 1\n",
 "import-math": "import math\ndb.Setting = math.floor(d0.Setting / 2)\n",
 "floor-call": "db.Setting = floor(d0.Setting / 2) + ceil(d0.Setting / 2)\n",
 "pow-neg": "x = d0.Setting\ndb.Setting = 2 ** (x - 2)\n",
 "pow-frac": "x = d0.Setting\ndb.Setting = x ** 0.5\n",
 "floordiv-rt": "x = d0.Setting\ndb.Setting = (x - 3) // 2\n",
 "str-concat-hash": "db.Setting = HASH('a' + 'b') + d0.Setting\n",
 "if-float": "x = d0.Setting / 4\nif x:\n    db.On = 1\ndb.Setting = x\n",
 "while-cond-call": "def more(n):\n    return n < 3\nn = d0.Setting\nwhile more(n):\n    n += 1\n    db.On = n\n",
 "cmp-in-arith": "x = d0.Setting\ndb.Setting = (x > 1) + (x == 2) * 10\n",
 "not-in-arith": "x = d0.Setting\ndb.Setting = (not x) + 1\n",
 "and-chain": "x = d0.Setting\ny = d1.Setting\nif x > 0 and y > 0 and x != y:\n    db.On = 1\nelse:\n    db.On = 0\n",
 "or-in-while": "x = d0.Setting\nn = 0\nwhile n < x or n < 2:\n    n += 1\ndb.Setting = n\n",
 "neg-step-var": "s = d0.Setting - 3\nfor i in range(3, 0, s):\n    db.On = i\n",
 "range-float": "for i in range(d0.Setting / 2):\n    db.On = i\n",
 "augassign-global-in-func": "tot = 0\ndef add1(a):\n    global tot\n    tot += a\nwhile True:\n    add1(d0.Setting)\n    add1(1)\n    db.Setting = tot\n    yield_()\n",
 "local-without-global": "tot = 0\ndef add1(a):\n    tot = a\n    db.On = tot\nwhile True:\n    add1(d0.Setting)\n    add1(1)\n    db.Setting = tot\n    yield_()\n",
 "unary-plus": "x = d0.Setting\ndb.Setting = +x\n",
 "invert-const": "db.Setting = ~5 + d0.Setting\n",
 "bool-const": "x = True\ndb.Setting = x + d0.Setting\n",
 "multiple-targets-dev": "db.Setting = db.On = d0.Setting\n",
 "dev-compare-chain": "if d0.Setting > d1.Setting > 0:\n    db.On = 1\n",
 "hex-oct-bin": "db.Setting = 0x10 + 0o10 + 0b10 + d0.Setting\n",
 "big-int": "db.Setting = 12345678901234567890 + d0.Setting\n",
 "underscore-num": "db.Setting = 1_000 + d0.Setting\n",
 "sci": "db.Setting = 1.5e3 + d0.Setting\n",
 "line-cont": "x = d0.Setting + \\\n    1\ndb.Setting = x\n",
 "semicolon": "x = d0.Setting; db.Setting = x\n",
 "oneline-if": "x = d0.Setting\nif x: db.On = 1\ndb.Setting = x\n",
 "comment-pytrapic-mid": "x = d0.Setting  # pytrapic: compact\ndb.Setting = x\n",
 "while-true-return-main": "x = d0.Setting\ndb.Setting = x\nreturn\n",
 "nested-func-3": "def a1(x):\n    return x + 1\ndef a2(x):\n    return a1(x) * 2\ndef a3(x):\n    return a2(x) + a1(x)\nwhile True:\n    db.Setting = a3(d0.Setting)\n    db.On = a3(1) + a2(2)\n    yield_()\n",
 "bound-expr-modified": "n = d0.Setting\nfor i in range(n + 1):\n    n = 0\n    db.On = i\n",
 "range-empty": "x = d0.Setting\nfor i in range(3, x):\n    db.On = i\ndb.Setting = 1\n",
 "range-zero": "for i in range(0):\n    db.On = i\ndb.Setting = 1\n",
 "range-neg": "for i in range(-2):\n    db.On = i\ndb.Setting = 1\n",
 "range-neg-start": "for i in range(-2, 2):\n    db.On = i\n",
 "range-step-neg-var-end": "e = d0.Setting\nfor i in range(3, e, -1):\n    db.On = i\n",
 "dev-var": "dev = d0\ndev.Setting = 1\ndb.On = dev.On\n",
 "dev-ternary": "db.Setting = d0.Setting if d1.On else 5\n",
 "stack-ops": "push(d0.Setting)\npush(2)\ny = pop()\nz = pop()\ndb.Setting = y * 10 + z\n",
 "stack-aug": "stack[3] = d0.Setting\nstack[3] += 1\ndb.Setting = stack[3]\n",
 "list-assign": "arr = [1, 2, 3]\narr[0] = 5\ndb.Setting = arr[0] + d0.Setting\n",
 "list-assign-rt": "arr = [1, 2, 3]\nk = d0.Setting\narr[k] = 5\ndb.Setting = arr[0]\n",
 "min3": "x = d0.Setting\ndb.Setting = min(x, 1, 2)\n",
 "max1": "x = d0.Setting\ndb.Setting = max(x)\n",
 "round2": "x = d0.Setting\ndb.Setting = round(x / 3, 1)\n",
 "sqrt-etc": "x = d0.Setting\ndb.Setting = sqrt(x) + floor(x / 2) + ceil(x / 2) + exp(0) + log(1)\n",
 "trig": "x = d0.Setting\ndb.Setting = sin(x) + cos(x) + tan(0) + atan2(x, 1)\n",
 "bool-arith": "x = d0.Setting\ndb.Setting = True + x + False\n",
 "not-not": "x = d0.Setting\ndb.Setting = not not x\n",
 "eq-true": "x = d0.Setting\nif x == True:\n    db.On = 1\nelse:\n    db.On = 0\n",
 "ternary-cond": "x = d0.Setting\nif (1 if x > 1 else 0):\n    db.On = 1\n",
 "shadow-builtin": "max = d0.Setting\ndb.Setting = max + 1\n",
 "var-named-like-device": "Battery = d0.Setting\ndb.Setting = Battery\n",
 "sleep-yield-func": "def f():\n    sleep(1)\n    yield_()\n    db.On = 1\nwhile True:\n    f()\n    f()\n",
 "hash-var-name": "nm = 'Tank'\ndb.Setting = HASH(nm) + d0.Setting\n",
 "nested-subscript": "arr = [[1, 2], [3, 4]]\ndb.Setting = arr[1][0] + d0.Setting\n",
 "tuple-const": "t = (4, 5, 6)\ndb.Setting = t[d0.Setting]\n",
 "list-of-hash-rt": "arr = [HASH('a'), HASH('b'), HASH('c')]\nBatteries[arr[d0.Setting]].On = 1\n",
 "for-tuple": "for v in (1, 2):\n    db.On = v\n",
 "for-list-var": "arr = [3, 4]\nfor v in arr:\n    db.On = v + d0.Setting\n",
 "for-enumerate": "for i, v in enumerate([5, 6]):\n    db.On = i + v\n",
 "while-nested-break-outer-flag": "x = d0.Setting\ndone = 0\nn = 0\nwhile n < 3 and done == 0:\n    n += 1\n    if n == x:\n        done = 1\ndb.Setting = n\n",
 "if-assign-both": "x = d0.Setting\nif x > 1:\n    y = 1\nelse:\n    y = 2\ndb.Setting = y\n",
 "if-assign-one": "x = d0.Setting\ny = 0\nif x > 1:\n    y = 1\ndb.Setting = y\n",
 "var-reuse-types": "x = d0.Setting\nx = x > 1\ndb.Setting = x\n",
 "self-assign": "x = d0.Setting\nx = x\ndb.Setting = x\n",
 "chain-copy": "a = d0.Setting\nb = a\nc = b\ndb.Setting = c + 1\ndb.On = a\n",
 "copy-then-modify-copy": "a = d0.Setting\nb = a\nb = b + 1\ndb.Setting = a * 10 + b\n",
 "param-copy-modify": "def f(p):\n    q = p\n    q = q + 1\n    db.Setting = p * 10 + q\nwhile True:\n    f(d0.Setting)\n    f(1)\n    yield_()\n",
 "global-copy": "g = d0.Setting\ndef f():\n    h = g\n    h = h + 1\n    db.Setting = g * 10 + h\nwhile True:\n    f()\n    f()\n    yield_()\n",
 "expr-stmt": "x = d0.Setting\nx + 1\ndb.Setting = x\n",
 "call-result-unused": "def f(a):\n    db.On = a\n    return a + 1\nwhile True:\n    f(d0.Setting)\n    f(1)\n    yield_()\n",
 "return-in-main-loop": "while True:\n    x = d0.Setting\n    if x > 1:\n        break\n    db.On = x\n    yield_()\ndb.Setting = 9\n",
 "deep-nesting": "x = d0.Setting\nif x > 0:\n    if x > 1:\n        if x > 2:\n            db.On = 3\n        else:\n            db.On = 2\n    else:\n        db.On = 1\nelse:\n    db.On = 0\n",
 "long-and-or": "x = d0.Setting\ny = d1.Setting\ndb.Setting = (x > 0 and y > 0) or (x == 0 and y == 0)\n",
 "cmp-ne-chain-val": "x = d0.Setting\ndb.Setting = (x != 1) * 2 + (x >= 2) + (x <= 0)\n",
 "neg-zero": "x = d0.Setting\ndb.Setting = -0.0 * x\n",
 "big-shift": "x = d0.Setting\ndb.Setting = 1 << (x + 30)\n",
 "mod-float": "x = d0.Setting\ndb.Setting = (x + 0.5) % 1\n",
 "pow-zero": "x = d0.Setting\ndb.Setting = x ** 0 + 0 ** x\n",
 "div-zero-rt": "x = d0.Setting\ndb.Setting = 1 / x\n",
}


def syntax(tier="quick"):
    out = []
    for n, (name, src) in enumerate(SYNTAX_FORMS.items()):
        out.append(mk("SYNTAX", n, src, tag=name, V=[0, 1, 2, 3], K=10, T=2, cap=64))
        # the same statements inside a function that is called twice (registers, argument slots, labels of a second scope)
        if "def " not in src and "return\n" not in src and "import" not in src and "class " not in src:
            import re

            m = re.match(r"(\w+) = d0\.Setting\n", src)
            if m and src.count("d0.Setting") == 1:
                par, body = m.group(1), src[m.end():]  # the variable becomes the parameter ('x = p0' would be an alias: finding F-04a)
            else:
                par, body = "p0", src.replace("d0.Setting", "p0")
            out.append(mk("SYNTAX", n, "def body(" + par + "):\n" + ind(body) + "while True:\n    body(d0.Setting)\n    body(1)\n    yield_()\n", tag=name + "/func", V=[0, 1, 2, 3], K=12, T=2, cap=64))
    return out


# ----------------------------------------------------------------------------
# DEADLIB: code that is dropped at compile time and mentions a library function (C07, C13, C01)

def deadlib(tier="quick"):
    lib = "def pulse(a):\n    db.On = a\n    d1.Setting = a + 1\ndef idle():\n    db.Mode = 7\ndef val(c):\n    db.Lock = c\n    return c * 2\n"
    guards = {
        "if0": ("", "if 0:\n{B}"), "ifFalse": ("", "if False:\n{B}"), "whileFalse": ("", "while False:\n{B}"), "constvar": ("K = 0\n", "if K:\n{B}"),
        "ifnot1": ("", "if not 1:\n{B}"), "else": ("", "if 1:\n    db.Open = 2\nelse:\n{B}"),
    }
    deads = {"same": "pump.pulse(9)", "samearg": "pump.pulse(x)", "other": "pump.idle()", "val": "db.Setting = pump.val(3)", "two": "pump.pulse(1)\npump.pulse(2)"}
    out = []
    n = 0
    merged_lib = lib.replace("def pulse", "def pump_pulse").replace("def idle", "def pump_idle").replace("def val", "def pump_val")

    def mkd(fam, n, src, tag):
        body = src.replace("from library import pump\n", "", 1)
        return mk(fam, n, src, modules={"pump": lib}, ref_src=body, ref_modules={"pump": (lib, "pump")}, merged_src=merged_lib + body.replace("pump.", "pump_"), tag=tag, V=[0, 1, 2, 3], K=8, T=2, cap=64)

    for gn, (pre, g) in guards.items():
        for dn, dead_stmt in deads.items():
            block = g.format(B=ind(dead_stmt))
            head = "from library import pump\n" + pre
            # (1) terminating main, the library function has one live call site: nothing may be left behind the main code
            src = head + "x = d0.Setting\npump.pulse(x)\n" + block + "db.Open = 5\n"
            # a call site that is dropped only after constant propagation still counts for the inlining decision: the function stays
            # out of line and the terminating main falls through into it (finding F-07)
            counted = gn in ("constvar", "else") and dn in ("same", "samearg", "two")
            out.append(mkd("W-F07" if counted else "DEADLIB-TERM", n, src, f"term/{gn}/{dn}"))
            # (2) endless main, one live call site
            src = head + "while True:\n" + ind("x = d0.Setting\npump.pulse(x)\n" + block + "yield_()\n")
            out.append(mkd("DEADLIB", n, src, f"loop1/{gn}/{dn}"))
            # (3) endless main, two live call sites, dead block inside a main-file function
            src = head + "def work(x):\n" + ind("pump.pulse(x)\n" + block + "db.Open = x\n") + "while True:\n    work(d0.Setting)\n    pump.pulse(4)\n    yield_()\n"
            out.append(mkd("DEADLIB", n, src, f"loop2/{gn}/{dn}"))
            n += 1
    return out


# ----------------------------------------------------------------------------
# GLOBALS: module-level variables written inside functions; where the initialisation stands relative to the functions, whether
# the main code mentions the variable, and what else the main code keeps in registers meanwhile (C04, C01)

def globals_family(tier="quick"):
    out = []
    n = 0
    funcs = {
        "inc": "def tick():\n    global count\n    count = count + 1\n    db.Setting = count\n",
        "incarg": "def tick(a):\n    global count\n    count = count + a\n    db.Setting = count\n",
        "two": "def tick():\n    global count\n    count = count + 1\ndef show():\n    db.Setting = count\n",
        "reset": "def tick():\n    global count\n    count = count + 1\n    if count > 3:\n        count = 0\n    db.Setting = count\n",
        "pair": "def tick():\n    global count\n    global total\n    count = count + 1\n    total = total + count\n    db.Setting = total\n",
    }
    mains = {
        "silent": "{CALL}\ndb.On = (d0.Setting + 1) * 2\n{CALL}\n",
        "temps": "{CALL}\na = d0.Setting\nb = d1.Setting\ndb.On = (a + 1) * (b + 2) - a * b\n{CALL}\ndb.Mode = a\n",
        "reads": "{CALL}\ndb.On = count + d0.Setting\n{CALL}\n",
        "local-call": "def other(q):\n    t = q * 2\n    return t + 1\n@@{CALL}\ndb.On = other(d0.Setting) + other(1)\n{CALL}\n",
    }
    for fn, fsrc in funcs.items():
        call = {"inc": "tick()", "incarg": "tick(2)", "two": "tick()\nshow()", "reset": "tick()", "pair": "tick()"}[fn]
        init = "count = 0\n" + ("total = 0\n" if fn == "pair" else "")
        for mn, m in mains.items():
            pre = ""
            if "@@" in m:
                pre, m = m.split("@@")
            body = m.format(CALL=call)
            for order in ("init-first", "init-after-functions", "init-between"):
                if order == "init-first":
                    head = init + fsrc + pre
                elif order == "init-after-functions":
                    head = fsrc + pre + init
                else:
                    head = fsrc + init + pre
                src = head + "while True:\n" + ind(body + "yield_()\n")
                out.append(mk("GLOBALS", n, src, tag=f"{fn}/{mn}/{order}", V=[0, 1, 2], K=14, T=3, cap=64))
                n += 1
    return out


# ----------------------------------------------------------------------------
# CALLARG: calls whose arguments are calls (argument slots / pushes of the outer call around the inner call) -- C02, C01, C04, C06

def callarg(tier="quick"):
    defs = "def inc(a):\n    db.On = a\n    return a + 1\ndef mix(p, q):\n    db.Mode = p\n    return p * 10 + q\ndef tri(p, q, u):\n    d1.Setting = q\n    return p * 100 + q * 10 + u\n"
    exprs = [
        "mix(x, inc(y))", "mix(inc(x), y)", "mix(inc(x), inc(y))", "mix(x, mix(y, x))", "mix(mix(x, y), x)", "mix(mix(x, 1), mix(2, y))", "mix(x + 1, inc(y) * 2)", "mix(inc(inc(x)), y)",
        "tri(x, inc(y), 3)", "tri(x, y, inc(x))", "tri(inc(x), mix(y, x), inc(y))", "tri(x, mix(y, inc(x)), y)", "mix(x, inc(y)) + mix(y, inc(x))", "inc(mix(x, inc(y)))",
    ]
    out = []
    n = 0
    for e in exprs:
        # every function is called from two sites at least (not inlined by default) ...
        src = defs + "while True:\n    x = d0.Setting\n    y = d1.Setting\n    db.Setting = " + e + "\n    db.Lock = inc(1) + mix(2, 3) + tri(4, 5, 6)\n    yield_()\n"
        out.append(mk("CALLARG", n, src, V=[0, 1, 2, 3], K=14, T=2, cap=64))
        # ... and the same expression inside a function with parameters
        src = defs + "def work(x, y):\n    db.Setting = " + e + "\n    return x\nwhile True:\n    db.Open = work(d0.Setting, d1.Setting)\n    db.Lock = inc(1) + mix(2, 3) + tri(4, 5, 6) + work(7, 8)\n    yield_()\n"
        out.append(mk("CALLARG", n, src, V=[0, 1, 2, 3], K=14, T=2, cap=64))
        n += 1
    return out


# ----------------------------------------------------------------------------
# FORFN: for-range loops whose start / bound / step are parameters or locals of a function (lifetimes around the loop) -- C04, C01

def forfn(tier="quick"):
    out = []
    n = 0
    bounds = {"param": ("", "n"), "local": ("m = n + 1\n", "m"), "expr": ("", "n + 1"), "const": ("", "4")}
    steps = {"none": None, "const2": "2", "param": "st", "neg": "-1"}
    starts = {"none": None, "const1": "1", "param": "b0"}
    bodies = {
        "simple": ("", "db.On = i\n", ""),
        "temp": ("", "d1.Setting = (i + 1) * 2\n", ""),
        "temps": ("", "d1.Setting = (i + 1) * 2 + (i + 3) * (i + 4)\ndb.On = i * i - 1\n", ""),
        "acc": ("acc = 0\n", "acc = acc + i * 2\n", "db.Setting = acc\n"),
        "inner": ("", "for j in range(i):\n    db.On = i * 10 + j\n", ""),
        "call": ("", "show((i + 1) * 3)\n", ""),
    }
    for bk, (bpre, bexpr) in bounds.items():
        for sk, sexpr in steps.items():
            for tk, texpr in starts.items():
                if sexpr is not None and texpr is None:
                    texpr_eff = "0"
                else:
                    texpr_eff = texpr
                if sk == "neg":
                    # counting down: start from the bound, stop at the start value
                    hi, lo = bexpr, (texpr_eff or "0")
                    rng = f"range({hi}, {lo}, -1)"
                else:
                    args = [a for a in (texpr_eff, bexpr) if a is not None] + ([sexpr] if sexpr is not None else [])
                    rng = f"range({', '.join(args)})"
                for bodyk, (pre, body, post) in bodies.items():
                    for after in (False, True):
                        if tier == "quick" and (n % 2) and bodyk in ("simple", "inner") :
                            n += 1
                            continue
                        use_after = (f"db.Mode = {bexpr.split()[0]}\n" if after and bk != "const" else "")
                        fbody = bpre + pre + f"for i in {rng}:\n" + ind(body) + post + use_after + "db.Lock = 1\n"
                        show = "def show(v):\n    db.Open = v\n" if bodyk == "call" else ""
                        src = show + "def work(n, st, b0):\n" + ind(fbody) + "while True:\n    work(d0.Setting, d1.Setting, 1)\n    work(3, 1, 0)\n    yield_()\n"
                        # step values 0 would never terminate: the alphabet for d1 (the step) is kept positive by the reference horizon
                        out.append(mk("FORFN", n, src, tag=f"{bk}/{sk}/{tk}/{bodyk}/{after}", V=[1, 2, 3, 0], K=14, T=2, cap=64))
                        n += 1
    return out


# ----------------------------------------------------------------------------
# CONSTPROP: variables / parameters / globals that receive a compile-time constant in one of several assignments
# (constant propagation through single-assignment variables must not fire for them) -- C01, C03

def constprop(tier="quick"):
    out = []
    n = 0
    consts = ["0", "1", "5", "100", "2.5", 'HASH("x")'] if tier == "thorough" else ["0", "5", "2.5", 'HASH("x")']
    T = {
        "local-cond": "v = d0.Setting\nif v > 1:\n    v = {c}\ndb.Setting = v\ndb.On = v + 1\n",
        "local-read-before": "v = d0.Setting\ndb.On = v\nv = {c}\ndb.Setting = v\n",
        "local-both-branches": "x = d0.Setting\nif x > 1:\n    v = {c}\nelse:\n    v = 7\ndb.Setting = v\n",
        "local-loop": "v = 3\nk = 0\nwhile k < 3:\n    if k == d0.Setting:\n        v = {c}\n    k += 1\n    db.On = v\ndb.Setting = v\n",
        "local-const-then-dyn": "v = {c}\ndb.On = v\nif d0.Setting > 1:\n    v = d1.Setting\ndb.Setting = v\n",
        "param-cond": "def clamp(v):\n    if v > 1:\n        v = {c}\n    return v\nwhile True:\n    db.Setting = clamp(d0.Setting)\n    db.On = clamp(3)\n    yield_()\n",
        "param-cond-once": "def clamp(v):\n    if v > 1:\n        v = {c}\n    return v\nwhile True:\n    db.Setting = clamp(d0.Setting)\n    yield_()\n",
        "param-uncond": "def f(v):\n    db.On = v\n    v = {c}\n    db.Mode = v\n    return v\nwhile True:\n    db.Setting = f(d0.Setting)\n    db.Lock = f(2)\n    yield_()\n",
        "param-second": "def f(a, v):\n    if a > v:\n        v = {c}\n    db.On = a\n    return v + a\nwhile True:\n    db.Setting = f(d0.Setting, 1)\n    db.Lock = f(2, d1.Setting)\n    yield_()\n",
        # the argument is a plain variable of the caller that is read again after the (inlined, single call site) call
        "param-arg-var-once": "def clamp(v):\n    if v > 1:\n        v = {c}\n    return v\nwhile True:\n    raw = d0.Setting\n    lim = clamp(raw)\n    db.Setting = raw\n    db.On = lim\n    yield_()\n",
        "param-arg-var-twice": "def clamp(v):\n    if v > 2:\n        v = {c}\n    if v < 1:\n        v = 1\n    return v\nwhile True:\n    raw = d0.Setting\n    lim = clamp(raw)\n    db.Setting = raw\n    db.On = lim\n    yield_()\n",
        "param-arg-var-aug": "def bump(v, w):\n    v += w\n    db.Mode = v\nwhile True:\n    raw = d0.Setting\n    bump(raw, {c})\n    db.Setting = raw\n    yield_()\n",
        "param-arg-var-uncond": "def f(v):\n    db.Mode = v\n    v = {c}\n    db.Lock = v\nwhile True:\n    raw = d0.Setting\n    f(raw)\n    db.Setting = raw\n    yield_()\n",
        "global-in-func": "G = d0.Setting\ndef f(a):\n    global G\n    if a > 1:\n        G = {c}\n    db.On = a\nwhile True:\n    db.Mode = G\n    f(d1.Setting)\n    db.Setting = G\n    f(0)\n    yield_()\n",
        "global-const-then-func": "G = {c}\ndef f(a):\n    global G\n    G = G + a\nwhile True:\n    db.Mode = G\n    f(d0.Setting)\n    f(1)\n    db.Setting = G\n    yield_()\n",
        "loopvar-after": "t = 0\nfor i in range(3):\n    t = {c}\n    if i == d0.Setting:\n        t = i\n    db.On = t\n",
        "augassign": "v = {c}\nv += d0.Setting\ndb.Setting = v\nw = d1.Setting\nw *= 2\nw = {c}\ndb.On = w\n",
    }
    for tn, t in T.items():
        for c in consts:
            src = t.replace("{c}", c)
            out.append(mk("CONSTPROP", n, src, tag=f"{tn}/{c}", V=[0, 1, 2, 3], K=10, T=2, cap=128))
            n += 1
    return out



# ----------------------------------------------------------------------------
# INTRINSIC: IC10 instructions called as Python functions (statement and value forms) -- C01, C04

def intrinsic(tier="quick"):
    srcs = [
        "x = add(d0.Setting, 2)\ndb.Setting = x\ndb.On = x * 2\n",
        "x = d0.Setting\ny = sub(x, 1)\nz = mul(y, y)\ndb.Setting = div(z, 2) + mod(x, 3)\n",
        "db.Setting = max(d0.Setting, d1.Setting)\ndb.On = min(d0.Setting, 1)\ndb.Mode = abs(d0.Setting - 2)\n",
        "a = d0.Setting\nb = select(a > 1, 5, 6)\ndb.Setting = b\ndb.On = select(a, a + 1, 9)\n",
        "push(d0.Setting)\npush(5)\na = pop()\nb = pop()\ndb.Setting = a * 10 + b\n",
        "push(d0.Setting)\ndb.On = peek()\npush(peek() + 1)\ndb.Setting = pop() + pop()\n",
        "poke(7, d0.Setting)\ndb.Setting = stack[7] + 1\nstack[8] = 4\ndb.On = get(db, 8) + get(db, 7)\n",
        "put(db, 3, d0.Setting)\nx = get(db, 3)\nput(d1, 2, x + 1)\ndb.Setting = get(d2, 5) + x\n",
        "x = l(d0, LogicType.Setting)\ndb.Setting = x + l(d1, LogicType.On)\n",
        "m = d0.Setting\nx = m\nwhile x > 0:\n    push(x)\n    x = sub(x, 1)\nn = 0\nwhile n < m:\n    db.On = pop()\n    n = add(n, 1)\n",
        "t = 0\nfor i in range(3):\n    t = add(t, mul(i, d0.Setting))\n    db.On = t\ndb.Setting = t\n",
        "x = floor(d0.Setting / 2)\ny = ceil(d0.Setting / 2)\nz = round(d0.Setting / 2)\ndb.Setting = x * 100 + y * 10 + z\ndb.On = trunc(0 - d0.Setting / 2)\n",
        "x = sqrt(d0.Setting)\ndb.Setting = x * x\ny = exp(log(d0.Setting + 1))\ndb.On = y\n",
        "x = d0.Setting\ny = xor(x, 3)\nz = nor(x, 0)\ndb.Setting = y\ndb.On = sll(x, 2) + srl(8, x)\n",
        "x = seq(d0.Setting, 1)\ny = sgt(d0.Setting, d1.Setting)\nz = snez(d0.Setting)\ndb.Setting = x * 100 + y * 10 + z\n",
        "def f(a):\n    return add(a, mul(a, 2))\nwhile True:\n    db.Setting = f(d0.Setting)\n    db.On = f(1)\n    yield_()\n",
        "x = move(d0.Setting)\ny = move(x)\nx = add(x, 1)\ndb.Setting = y\ndb.On = x\n",
        "yield_()\ndb.Setting = d0.Setting\nsleep(2)\ndb.On = d0.Setting\n",
    ]
    out = []
    for i, sx in enumerate(srcs):
        out.append(mk("INTRINSIC", i, sx, V=[0, 1, 2, 3], K=10, T=3, cap=256, variants=[{}, {"compact": True, "remove_labels": True}, {"inline_functions": False}]))
    return out


def names_inline(tier="quick"):
    """NAMES skeleton 4: a host function (called twice, not inlined, saves ra) that contains an inlined helper (called once) and
    further calls; host / helper names from an alphabet in which one label is a textual suffix / prefix of the other."""
    out = []
    n = 0
    alpha = ["tick", "on_tick", "step", "substep", "date", "update", "f", "f_f", "ff", "up", "dup", "fend", "f_end", "lbend2"]
    for H, P in itertools.permutations(alpha, 2):
        src = (
            f"def {P}(k):\n    db.Mode = k\n    if k > 2:\n        return\n    db.Lock = k\n"
            f"def rep(v):\n    db.On = v\n"
            f"def {H}(a):\n    {P}(a)\n    rep(a + 100)\n    rep(a + 200)\n"
            f"while True:\n    {H}(d0.Setting)\n    {H}(5)\n    db.Setting = 999\n    yield_()\n"
        )
        out.append(mk("NAMESINL", n, src, names=[H, P], V=[0, 1, 3], K=12, T=2, cap=32))
        n += 1
        # nested inlining: host and helper are each called once (both inlined when inlining is on); endless and terminating main
        body = (
            f"def {P}(k):\n    db.Mode = k\n    if k > 2:\n        return\n    db.Lock = k\n"
            f"def {H}(a):\n    db.On = a\n    {P}(a)\n    db.Open = a + 100\n"
        )
        out.append(mk("NAMESINL", n, body + f"while True:\n    {H}(d0.Setting)\n    db.Setting = 999\n    yield_()\n", names=[H, P], shape="nested-loop", V=[0, 1, 3], K=12, T=2, cap=32))
        n += 1
        out.append(mk("NAMESINL-TERM", n, body + f"{H}(d0.Setting)\ndb.Setting = 999\n", names=[H, P], shape="nested-term", V=[0, 1, 3], K=12, T=2, cap=32))
        n += 1
    return out


# ----------------------------------------------------------------------------
# AUG / UNUSED: augmented assignments with every operator; results that are never read but whose computation has effects
# (pruning of unused code must only drop effect-free code) -- C01

def augunused(tier="quick"):
    out = []
    n = 0
    ops = ["+=", "-=", "*=", "/=", "%=", "**=", "<<=", ">>=", "&=", "^="]
    for op in ops:
        rhs_list = ["2", "x", "d1.Setting + 1"] if op not in ("%=", "/=", "<<=", ">>=") else ["2", "x + 1", "d1.Setting + 1"]
        for rhs in rhs_list:
            for ctx in ("main", "loop", "func", "global"):
                if ctx == "main":
                    src = f"x = d1.Setting\nw = d0.Setting\nw {op} {rhs}\ndb.Setting = w\ndb.On = x\n"
                elif ctx == "loop":
                    src = f"x = d1.Setting\nw = d0.Setting + 1\nk = 0\nwhile k < 2:\n    w {op} {rhs}\n    db.On = w\n    k += 1\ndb.Setting = w\n"
                elif ctx == "func":
                    src = f"def f(w, x):\n    w {op} {rhs}\n    return w\nwhile True:\n    db.Setting = f(d0.Setting, d1.Setting)\n    db.On = f(3, 2)\n    yield_()\n"
                else:
                    src = f"W = 3\ndef f(x):\n    global W\n    W {op} {rhs}\n    db.On = W\nwhile True:\n    f(d1.Setting)\n    f(1)\n    db.Setting = W\n    yield_()\n"
                out.append(mk("AUG", n, src, tag=f"{op}/{rhs}/{ctx}", V=[0, 1, 2, 3], K=10, T=2, cap=128))
                n += 1
    unused = [
        # value-returning function with an effect, result never read
        "def show(v):\n    db.On = v\n    return v + 1\nwhile True:\n    t = show(d0.Setting)\n    show(2)\n    db.Setting = 5\n    yield_()\n",
        "def show(v):\n    db.On = v\n    return v + 1\ndef work(a):\n    t = show(a)\n    u = show(a + 1)\n    db.Mode = a\nwhile True:\n    work(d0.Setting)\n    work(1)\n    yield_()\n",
        # unused variable assigned in a loop / branch; the loop itself has effects
        "k = 0\nwhile k < 3:\n    unused = k * d0.Setting\n    db.On = k\n    k += 1\ndb.Setting = k\n",
        "x = d0.Setting\nif x > 1:\n    unused = x + 1\n    db.On = 1\nelse:\n    unused = 3\ndb.Setting = x\n",
        # expression statements
        "d0.Setting\ndb.Setting = 1\n",
        "x = d0.Setting\nx + 1\ndb.Setting = x\n",
        # unused function definitions, unused parameters
        "def never(a):\n    db.On = a\ndef used(a, b):\n    db.Mode = a\nwhile True:\n    used(d0.Setting, d1.Setting)\n    used(1, 2)\n    yield_()\n",
        "def used(a, b, c):\n    db.Mode = b\n    return c\nwhile True:\n    db.Setting = used(d0.Setting, d1.Setting, 3)\n    db.On = used(1, 2, d0.Setting)\n    yield_()\n",
        # a variable that is written twice and read once; written but only read in dead code
        "x = d0.Setting\nx = d1.Setting\ndb.Setting = x\n",
        "DEBUG = 0\nx = d0.Setting\ny = x * 2\nif DEBUG:\n    db.On = y\ndb.Setting = x\n",
        # effect inside the argument of a call whose result is unused
        "def show(v):\n    db.On = v\n    return v\ndef twice(v):\n    return v * 2\nwhile True:\n    t = twice(show(d0.Setting))\n    twice(show(3))\n    db.Setting = 1\n    yield_()\n",
        # stack writes whose value is never read back by the program are still effects on own memory only (not observable): later read
        "stack[3] = d0.Setting\nunused = stack[3]\nstack[4] = stack[3] + 1\ndb.Setting = stack[4]\n",
        # yield / sleep in otherwise empty loop bodies
        "k = 0\nwhile k < 2:\n    yield_()\n    k += 1\ndb.Setting = k\n",
    ]
    for i, sx in enumerate(unused):
        out.append(mk("UNUSED", i, sx, V=[0, 1, 2, 3], K=10, T=3, cap=128))
    return out



# ----------------------------------------------------------------------------
# LATESTORE: a function-local that is stored to again after its last read while a later-defined local is live -- C04, C01

def latestore(tier="quick"):
    out = []
    n = 0
    for k in (1, 2, 4):
        ks = [f"k{i}" for i in range(k)]
        loads = "".join(f"{v} = d{i % 3}.Setting\n" for i, v in enumerate(ks))
        use = "db.Setting = a + " + " + ".join(f"{v} * {10 ** (i + 1)}" for i, v in enumerate(ks)) + "\n"
        bodies = {
            "plain": "n = a + 1\ndb.On = n\n" + loads + "n = 0\n" + use,
            "aug": "cnt = a\ndb.On = cnt\n" + loads + "cnt += 1\n" + use,
            "branch": "n = a + 1\ndb.On = n\n" + loads + "if a > 1:\n    n = 5\n" + use,
            "twostores": "n = a + 1\ndb.On = n\n" + loads + "n = 0\nn = 7\n" + use,
            "afterloop": "n = 0\nfor i in range(2):\n    n = n + i\n    db.On = n\n" + loads + "n = 0\n" + use,
            "readlater": "n = a + 1\ndb.On = n\n" + loads + "n = 3\n" + use + "db.Mode = n\n",
            "param": "db.On = a\n" + loads + use.replace("a + ", "") + "a = 0\n",
        }
        for bn, body in bodies.items():
            src = "def step(a):\n" + ind(body) + "while True:\n    step(d1.Setting)\n    step(2)\n    yield_()\n"
            out.append(mk("LATESTORE", n, src, tag=f"{k}/{bn}", V=[0, 1, 2], K=10, T=2, cap=81))
            n += 1
    return out


# ----------------------------------------------------------------------------
# CTRL3: while loops with compound tests, break / continue at several nesting positions, nested while loops -- C01, C05

def ctrl3(tier="quick"):
    out = []
    n = 0
    tests = ["k < 3", "k < 3 and x != k", "k < 3 or (k < 5 and y > 1)", "not k >= 3", "k < y", "x > 0 and y < 2 and k < 3", "(x > 1) == (y > 1) and k < 3", "k != 3"]
    bodies = {
        "plain": "db.On = k\n",
        "break-if": "if k == x:\n    break\ndb.On = k\n",
        "break-else": "if k != x:\n    db.On = k\nelse:\n    break\n",
        "continue-if": "if k == x:\n    k += 1\n    continue\ndb.On = k\n",
        "break-continue": "if k == x:\n    k += 2\n    continue\nif k == y:\n    break\ndb.On = k\n",
        "nested-if-break": "if k > 0:\n    if k == x:\n        break\n    db.Mode = k\ndb.On = k\n",
        "inner-while": "j = 0\nwhile j < 2:\n    if j == x:\n        break\n    db.Mode = k * 10 + j\n    j += 1\ndb.On = k\n",
        "inner-while-continue": "j = 0\nwhile j < 3:\n    j += 1\n    if j == y:\n        continue\n    db.Mode = k * 10 + j\nif k == x:\n    break\n",
        "inner-break-outer-continue": "j = 0\nwhile True:\n    j += 1\n    if j > x:\n        break\nif j == 2:\n    k += 1\n    continue\ndb.On = j\n",
        "for-inside": "for q in range(2):\n    if q == x:\n        db.Mode = q\n    db.Lock = k + q\nif k == y:\n    break\n",
    }
    for ti, t in enumerate(tests):
        for bn, b in bodies.items():
            if tier == "quick" and (ti + len(bn)) % 2 and bn not in ("break-continue", "inner-break-outer-continue"):
                continue
            for ctx in ("main", "func"):
                loop = f"k = 0\nwhile {t}:\n" + ind(b + "k += 1\n") + "db.Setting = k\n"
                if ctx == "main":
                    src = "x = d0.Setting\ny = d2.Setting\n" + loop
                else:
                    src = "def work(x, y):\n" + ind(loop + "return k\n") + "while True:\n    db.Open = work(d0.Setting, d2.Setting)\n    db.Open = work(1, 2)\n    yield_()\n"
                out.append(mk("CTRL3", n, src, tag=f"{ti}/{bn}/{ctx}", V=[0, 1, 2, 3], K=14, T=2, cap=128, variants=[{}, {"remove_labels": True}, {"inline_functions": False}]))
                n += 1
    return out



# ----------------------------------------------------------------------------
# WRAP: statements that span several source lines (parenthesised / argument lists) -- C04, C01
# (lifetimes are source-line intervals: a temporary computed on a later line of the same statement must not reuse the register
# of an operand read on an earlier line)

def wrap(tier="quick"):
    srcs = [
        "def bill(fee, rate, hours):\n    total = (\n        fee\n        + rate * hours\n    )\n    db.On = total\n    return total\nwhile True:\n    db.Setting = bill(d0.Setting, d1.Setting, 3)\n    db.Mode = bill(2, 3, d0.Setting)\n    yield_()\n",
        "def f(a, b, c):\n    x = a + 1\n    y = b + 2\n    r = (\n        x\n        * y\n        + (a\n           - c) * (b\n                   + c)\n    )\n    return r\nwhile True:\n    db.Setting = f(d0.Setting, d1.Setting, 2)\n    db.Mode = f(1, 2, 3)\n    yield_()\n",
        "def g(a, b):\n    db.Setting = max(\n        a * 2,\n        b + 1,\n    ) + min(\n        a,\n        b * 3,\n    )\nwhile True:\n    g(d0.Setting, d1.Setting)\n    g(2, 1)\n    yield_()\n",
        "def h(a, b):\n    t = a * 3\n    if (t > b\n            and a + b > 2\n            and t - b < 7):\n        db.On = t\n    db.Setting = (t\n                  + b)\nwhile True:\n    h(d0.Setting, d1.Setting)\n    h(1, 1)\n    yield_()\n",
        "def show(u, v, w):\n    db.Mode = u * 100 + v * 10 + w\ndef k(a, b):\n    m = a + b\n    show(\n        m,\n        a * 2,\n        b - 1,\n    )\n    db.Setting = m\nwhile True:\n    k(d0.Setting, d1.Setting)\n    k(1, 2)\n    yield_()\n",
        "x = d0.Setting\ny = d1.Setting\nz = (\n    x\n    + y * 2\n)\ndb.Setting = (z\n              - x)\n",
        "def p(a):\n    arr = [\n        10,\n        20,\n        30,\n    ]\n    v = arr[\n        a\n    ] + a * (\n        a + 1)\n    return v\nwhile True:\n    db.Setting = p(d0.Setting)\n    db.On = p(1)\n    yield_()\n",
        "def q(a, b):\n    total = 0\n    for i in range(\n            a,\n            a + b,\n    ):\n        total = (total\n                 + i * (a\n                        + 1))\n    return total\nwhile True:\n    db.Setting = q(d0.Setting, 2)\n    db.On = q(1, d1.Setting)\n    yield_()\n",
    ]
    out = []
    for i, sx in enumerate(srcs):
        out.append(mk("WRAP", i, sx, V=[0, 1, 2, 3], K=12, T=2, cap=128, variants=[{}, {"inline_functions": False}, {"inline_functions": False, "use_push_pop_functions": True}]))
    return out


# ----------------------------------------------------------------------------
# EMIT: @emit_code functions (raw IC10 lines, including comment-only and blank lines) followed by jumps -- C05

def emit(tier="quick"):
    raws = {
        "instr": '["move r15 7", "s db Mode r15"]',
        "comment": '["# a note", "move r15 7", "s db Mode r15"]',
        "blank": '["move r15 7", "", "s db Mode r15"]',
        "both": '["# first", "", "move r15 7", "# second", "s db Mode r15", ""]',
    }
    tails = {
        "if": "if x > 1:\n    db.On = 1\nelse:\n    db.On = 2\ndb.Setting = x\n",
        "while": "k = 0\nwhile k < 2:\n    db.Lock = k\n    k += 1\ndb.Setting = x\n",
        "func": "db.Setting = calc(x)\ndb.On = calc(2)\n",
    }
    out = []
    n = 0
    for rn, raw in raws.items():
        for tn, tail in tails.items():
            for pos in ("before", "inside"):
                fdefs = "@emit_code\ndef raw():\n    return " + raw + "\n" + ("def calc(v):\n    if v > 2:\n        return v\n    return v + 10\n" if tn == "func" else "")
                if pos == "before":
                    body = "x = d0.Setting\nraw()\n" + tail
                else:
                    body = "x = d0.Setting\nif x > 0:\n    raw()\n" + tail
                src = fdefs + "while True:\n" + ind(body + "yield_()\n")
                out.append(mk("EMIT", n, src, ref_src=None, tag=f"{rn}/{tn}/{pos}", V=[0, 1, 2, 3], K=10, T=2, cap=32))
                n += 1
    return out
