"""./check entry point."""
import argparse
import importlib
import os
import sys


def main():
    ap = argparse.ArgumentParser()
    ap.add_argument("prop")
    ap.add_argument("--tier", default=os.environ.get("VERIF_TIER", "quick"), choices=["quick", "thorough"])
    ap.add_argument("--replay")
    ap.add_argument("--propose", action="store_true", help="print candidate known-finding witnesses (never written at run time)")
    a = ap.parse_args()
    mod = importlib.import_module(f"vp.checks.{a.prop.lower()}")
    if a.replay:
        sys.exit(mod.replay(a.replay))
    sys.exit(mod.run(a.tier, propose=a.propose))


if __name__ == "__main__":
    main()
