"""Self-test of the reference IC10 machine M and executor R: hand-written IC10
snippets with hand-computed traces (DESIGN 2)."""
import sys

from .ic10 import HASHv, STRv, LazyEnv, Machine, Program, parse_literal, static_lint, tokenize

CASES = [
    ("move r0 5\ns db Setting r0", [("s", "db", 12.0, 5.0)]),
    ("move r0 3\nadd r1 r0 4\nmul r1 r1 2\ns db Setting r1", [("s", "db", 12.0, 14.0)]),
    ("move r0 -7\nmod r1 r0 3\ns db Setting r1", [("s", "db", 12.0, 2.0)]),
    ("div r0 1 0\ns db Setting r0", [("s", "db", 12.0, float("inf"))]),
    ("move r0 0\nloop:\nadd r0 r0 1\nblt r0 3 loop\ns db On r0", [("s", "db", 28.0, 3.0)]),
    ("jal f\ns db On 2\nj end\nf:\ns db On 1\nj ra\nend:", [("s", "db", 28.0, 1.0), ("s", "db", 28.0, 2.0)]),
    ("push 4\npush 5\npop r0\npop r1\nsub r2 r0 r1\ns db Setting r2\ns db On sp", [("s", "db", 12.0, 1.0), ("s", "db", 28.0, 0.0)]),
    ("poke 10 9\nget r0 db 10\ns db Setting r0", [("s", "db", 12.0, 9.0)]),
    ("select r0 1 7 8\nselect r1 0 7 8\ns db Setting r0\ns db On r1", [("s", "db", 12.0, 7.0), ("s", "db", 28.0, 8.0)]),
    ("move r0 2\njr r0\ns db On 1\ns db On 2\ns db On 3", [("s", "db", 28.0, 2.0), ("s", "db", 28.0, 3.0)]),
    ('sb HASH("StructureGrowLight") On 1', [("sb", float(HASHv("StructureGrowLight")), 28.0, 1.0)]),
    ('s db Setting STR("Day")', [("s", "db", 12.0, float(STRv("Day")))]),
    ("alias x r3\nmove x 6\ns db Setting r3\nalias dev d2\ns dev On 1", [("s", "db", 12.0, 6.0), ("s", "d2", 28.0, 1.0)]),
    ("s db Setting $FF\ns db On %101", [("s", "db", 12.0, 255.0), ("s", "db", 28.0, 5.0)]),
    ("seqz r0 0\nsgt r1 2 1\nsle r2 2 1\ns db Setting r0\ns db On r1\ns db Mode r2", [("s", "db", 12.0, 1.0), ("s", "db", 28.0, 1.0), ("s", "db", 3.0, 0.0)]),
    ("and r0 6 3\nor r1 6 3\nxor r2 6 3\nsll r3 1 4\nsrl r4 16 2\ns db Setting r0\ns db On r1\ns db Mode r2\ns db Lock r3\ns db Open r4", [("s", "db", 12.0, 2.0), ("s", "db", 28.0, 7.0), ("s", "db", 3.0, 5.0), ("s", "db", 10.0, 16.0), ("s", "db", 2.0, 4.0)]),
    ("yield\ns db On 1\nsleep 2", [("yield",), ("s", "db", 28.0, 1.0), ("sleep", 2.0)]),
    ("putd 255 3 9\nput d1 2 8", [("put", ("ref", 255.0), 3.0, 9.0), ("put", "d1", 2.0, 8.0)]),
    ("ss d0 1 Occupied 1\nsbs 5 0 Quantity 2", [("ss", "d0", 1.0, 1.0, 1.0), ("sbs", 5.0, 0.0, 3.0, 2.0)]),
    ("beqal 1 1 f\ns db On 2\nj end\nf:\ns db On 1\nj ra\nend:", [("s", "db", 28.0, 1.0), ("s", "db", 28.0, 2.0)]),
    ("move r0 1\nbrne r0 1 2\ns db On 5\ns db On 6", [("s", "db", 28.0, 5.0), ("s", "db", 28.0, 6.0)]),
    ("s db Mode Color.Red\ns db Setting LogicType.Pressure", None),
]


def main():
    bad = 0
    for text, want in CASES:
        env = LazyEnv([], [0, 1])
        m = Machine(Program(text), env, K=20, T=5, cap=1000).run()
        if want is not None and (m.trace != want or not m.status.startswith(("halt", "horizon"))):
            print("SELFTEST FAIL", repr(text), m.trace, m.status)
            bad += 1
        if want is None and not m.status.startswith("halt"):
            print("SELFTEST FAIL", repr(text), m.status)
            bad += 1
    # reads are choice points; same key within an epoch gives the same value
    env = LazyEnv([1, 0, 1], [10, 20])
    m = Machine(Program("l r0 d0 Setting\nl r1 d0 Setting\ns db Setting r0\nl r2 d0 Setting\ns db On r1\ns db Mode r2"), env, K=20, T=5, cap=100).run()
    if [e[3] for e in m.trace] != [20.0, 20.0, 10.0] or env.choices != [1, 0]:
        print("SELFTEST FAIL env", m.trace, env.choices)
        bad += 1
    assert HASHv("StructureBattery") == -400115994, HASHv("StructureBattery")
    assert STRv("AB") == 0x4142
    assert parse_literal("1e5") is None and parse_literal("-3.5") == -3.5 and parse_literal("$1F") == 31
    assert tokenize('sb HASH("a # b") On 1 # c')[0] == ["sb", 'HASH("a # b")', "On", "1"]
    assert static_lint("move r0 1\nfoo r1 2\ns db Setting None\nj nowhere\nadd r0 1") != []
    assert static_lint("lbl:\nmove r0 1\ns db Setting r0\nj lbl") == []
    # reference executor agrees with the machine on a tiny program
    from . import ref

    src = "x = d0.Setting\nif x > 1:\n    db.Setting = x % 3\nelse:\n    db.On = x / 0\n"
    code = "l r0 d0 Setting\nble r0 1 e\nmod r1 r0 3\ns db Setting r1\nj z\ne:\ndiv r1 r0 0\ns db On r1\nz:"
    for alt in range(4):
        env = LazyEnv([alt], [0, 1, 2, 5])
        tR, sR, _ = ref.run_ref(ref.compile_ref(src), env, 8, 2)
        m = Machine(Program(code), env, 8, 2, 1000).run()
        if repr(tR) != repr(m.trace):
            print("SELFTEST FAIL ref/machine", alt, tR, m.trace)
            bad += 1
    print("selftest:", "FAILED" if bad else "ok", f"({len(CASES)} machine snippets)")
    sys.exit(1 if bad else 0)


if __name__ == "__main__":
    main()
