"""Runner: parallel evaluation of cases, known-finding triage, replay files and
evidence files (DESIGN 1.6, 1.7)."""
import json
import multiprocessing as mp
import os
import random
import sys
import time

ROOT = os.path.dirname(os.path.dirname(os.path.abspath(__file__)))
# VERIF_OUT redirects evidence and replay files (used when a check is pointed at a scratch worktree via PYTRAPIC_REPO)
_OUT = os.environ.get("VERIF_OUT") or ROOT
EVID = os.path.join(_OUT, "evidence")
REPLAYS = os.path.join(_OUT, "replays")
KNOWN = os.path.join(ROOT, "known_findings.json")


def seed():
    try:
        return int(os.environ.get("VERIF_SEED", "0"))
    except ValueError:
        return 0


def workers():
    try:
        return max(1, int(os.environ.get("VERIF_WORKERS", str(min(16, os.cpu_count() or 4)))))
    except ValueError:
        return 8


def load_known(prop):
    try:
        data = json.load(open(KNOWN))
    except FileNotFoundError:
        return []
    return [f for f in data.get("open", []) if f.get("property") == prop]


_FN = None


def _call(item):
    i, case = item
    t = time.time()
    try:
        out = _FN(case)
    except Exception as e:  # harness bug: surface it, never hide
        import traceback

        out = {"key": case.get("key", "?"), "family": case.get("family"), "symptom": "harness-exception:" + type(e).__name__, "detail": {"traceback": traceback.format_exc()[-1500:]}, "stats": {}}
    out["_i"] = i
    out["_t"] = time.time() - t
    return out


def pmap(fn, cases, nworkers=None, chunksize=None, order_seed=None):
    """Evaluate fn over cases in forked workers.  Returns outcomes in case order."""
    global _FN
    _FN = fn
    n = len(cases)
    nworkers = nworkers or workers()
    idx = list(range(n))
    sd = seed() if order_seed is None else order_seed
    if sd:
        random.Random(sd).shuffle(idx)
    items = [(i, cases[i]) for i in idx]
    outs = [None] * n
    if nworkers <= 1 or n < 4:
        for it in items:
            o = _call(it)
            outs[o["_i"]] = o
        return outs
    if chunksize is None:
        chunksize = max(1, min(32, n // (nworkers * 8) or 1))
    ctx = mp.get_context("fork")
    import gc

    gc.collect()
    gc.freeze()  # keep the parent's heap (astroid's symbol module) out of the workers' collections: fewer copy-on-write faults
    with ctx.Pool(nworkers) as pool:
        for o in pool.imap_unordered(_call, items, chunksize=chunksize):
            outs[o["_i"]] = o
    return outs


def determinism_check(fn, cases, outs, n=12):
    """Re-evaluate the first n cases in this process; observations must be identical."""
    bad = []
    for i, case in enumerate(cases[:n]):
        o2 = fn(case)
        o1 = outs[i]
        # load-dependent counters (helper-process timeouts that were retried / counted inconclusive) are not observations
        vol = lambda st: {k: v for k, v in (st or {}).items() if k not in ("inconclusive", "nontrivial_if_conclusive")} if not (st or {}).get("inconclusive") else {}
        a = (o1.get("symptom"), json.dumps(vol(o1.get("stats")) if not (o2.get("stats") or {}).get("inconclusive") else {}, sort_keys=True, default=str))
        b = (o2.get("symptom"), json.dumps(vol(o2.get("stats")) if not (o1.get("stats") or {}).get("inconclusive") else {}, sort_keys=True, default=str))
        if a != b:
            bad.append((i, a, b))
    return bad


def write_replay(prop, case, out):
    d = os.path.join(REPLAYS, prop)
    os.makedirs(d, exist_ok=True)
    p = os.path.join(d, f"{out['key']}.json")
    with open(p, "w") as f:
        json.dump({"property": prop, "case": case, "symptom": out.get("symptom"), "detail": out.get("detail")}, f, indent=1, default=str)
    return p


def triage(prop, cases, outs, max_report=20):
    """Split failing outcomes into known findings and violations; print lines.
    Returns (n_violations, known_lines, info)."""
    known = load_known(prop)
    wit = {}
    for f in known:
        for k, s in f.get("witnesses", {}).items():
            wit.setdefault(k, []).append((f["id"], s, f))
    hits = {}
    viol = []
    for case, out in zip(cases, outs):
        s = out.get("symptom")
        if s is None:
            continue
        matched = False
        for fid, ws, f in wit.get(out["key"], []):
            if ws == s:
                hits.setdefault(fid, [f, 0])[1] += 1
                matched = True
                break
        if not matched:
            viol.append((case, out))
    for fid, (f, n) in sorted(hits.items()):
        print(f"KNOWN-FINDING: property={prop} {fid} {f.get('what', '')} [{n} of {len(f.get('witnesses', {}))} listed witnesses still fail with the recorded symptom]")
    for case, out in viol[:max_report]:
        p = write_replay(prop, case, out)
        print(f"VIOLATION property={prop} replay={p}")
        print(f"  family={out.get('family')} key={out['key']} symptom={out.get('symptom')}")
    if len(viol) > max_report:
        print(f"  ... and {len(viol) - max_report} more violations (replay files written for the first {max_report})")
    return len(viol), hits, viol


def write_evidence(prop, tier, level, coverage, assumptions, wall, violations):
    os.makedirs(EVID, exist_ok=True)
    ev = {
        "property_id": prop,
        "tier": tier,
        "seed": seed(),
        "level": level,
        "coverage": coverage,
        "assumptions": assumptions,
        "wall_s": round(wall, 2),
        "violations": violations,
    }
    tmp = os.path.join(EVID, f".{prop}.json.tmp")
    with open(tmp, "w") as f:
        json.dump(ev, f, indent=1, default=str)
    os.replace(tmp, os.path.join(EVID, f"{prop}.json"))


def sum_stats(outs, keys):
    tot = {k: 0 for k in keys}
    for o in outs:
        st = o.get("stats") or {}
        for k in keys:
            v = st.get(k)
            if isinstance(v, (int, float)):
                tot[k] += v
    return tot


def per_family(outs):
    fam = {}
    for o in outs:
        f = fam.setdefault(o.get("family") or "?", {"cases": 0, "failing": 0, "executions": 0, "single_trace": 0})
        f["cases"] += 1
        st = o.get("stats") or {}
        f["executions"] += st.get("executions", 0) or 0
        if o.get("symptom"):
            f["failing"] += 1
        if st.get("traces", 2) <= 1 and st.get("executions", 0) > 1:
            f["single_trace"] += 1
    return fam
