"""One X-RUN case = one source program x a set of option vectors, explored over
all device answers.  Cases are plain JSON-able dicts so that replay files are
self-contained."""
import hashlib
import json
import re

from . import comp, ref, xrun
from .ic10 import AsmError


def case_key(case):
    blob = json.dumps([case.get("src"), case.get("modules"), case.get("variants"), case.get("ref_src")] + ([case["merged_src"]] if case.get("merged_src") else []), sort_keys=True)
    return hashlib.sha256(blob.encode()).hexdigest()[:16]


_LOC = re.compile(r"Compiler error at line \d+:\d+: ")


def err_symptom(res):
    d = res["error"].get("description", "")
    d = _LOC.sub("", d).split("\n")[0]
    d = re.sub(r"0x[0-9a-f]+", "0x", d)
    d = re.sub(r"\d+", "N", d)
    return d[:70]


def sp_law_factory(meta, options):
    funcs = meta.get("funcs", {}) if meta else {}
    push_pop = options.get("use_push_pop_functions", False)

    def law(rsp, own):
        if own is None or own not in funcs:
            return None
        ar, has_ret = funcs[own]
        if push_pop:
            return rsp - ar + (1 if has_ret else 0)
        return rsp

    return law


def region_symptom(e):
    # ('region-cross', kind, o1, o2, pc)
    a = "main" if e[2] == "" else "func"
    b = "main" if e[3] == "" else "func"
    return f"region-cross:{e[1]}:{a}->{b}"


def _digest(bad):
    def rnd(x):
        if isinstance(x, float):
            return float(f"{x:.12g}") if x == x and abs(x) != float("inf") else repr(x)
        if isinstance(x, (list, tuple)):
            return [rnd(y) for y in x]
        return x

    blob = json.dumps([bad.get("variant"), rnd(bad["values"]), str(bad["got_status"]).split(":")[0], rnd(bad["got_trace"])], sort_keys=True, default=str)
    return hashlib.sha256(blob.encode()).hexdigest()[:8]


def symptom_of(bad):
    k = bad["kind"]
    if k == "trace":
        # specific to the first failing execution: a change inside an already broken
        # construct changes the digest and is reported as a new violation
        return "trace:" + _digest(bad)
    if k == "status":
        return "status:" + str(bad["got_status"]).split(":")[0] + "!=" + str(bad["ref_status"]).split(":")[0] + ":" + _digest(bad)
    if k == "monitor:tag" and bad.get("events"):
        e = bad["events"][0]
        return f"monitor:tag:line{e[1]}:{e[2]}"
    if k.startswith("monitor:region-cross") and bad.get("events"):
        e = bad["events"][0]
        return "monitor:" + region_symptom(e)
    return k


def pragma_header(options):
    tags = []
    for k in comp.OPTION_NAMES:
        nm = k.replace("_", "-")
        tags.append(nm if options[k] else "no-" + nm)
    # two directive lines, to exercise multi-line directives as well
    return "# pytrapic: " + ", ".join(tags[:4]) + "\n# pytrapic: " + ", ".join(tags[4:]) + "\n"


def normalize(text):
    """Comment-stripped, whitespace-normalised instruction text (line structure kept)."""
    from .ic10 import tokenize

    return "\n".join(" ".join(tokenize(l)[0]) for l in text.split("\n"))


def compile_variants(case):
    """Returns (list of (names, text, meta, options), errors {name: result})."""
    src = case["src"]
    mods = case.get("modules")
    full = dict(mods) if mods else None
    if full is not None:
        full[""] = src
    groups = {}
    order = []
    errors = {}
    for o in case["variants"]:
        o = dict(o)
        name = json.dumps(o, sort_keys=True)
        pragma = o.pop("_pragma", False)
        merged = o.pop("_merged", False)
        options = comp.opts(**o)
        msrc = src
        api_options = options
        if pragma:
            # the same vector given through '# pytrapic:' lines instead of the API
            msrc = pragma_header(options) + src
            api_options = comp.opts()
            api_options["append_version"] = True
        inp = dict(full, **{"": msrc}) if full is not None else msrc
        if merged:
            # the mechanically merged single-file form of a multi-module program (C13)
            inp = (pragma_header(options) if pragma else "") + case["merged_src"]
        res, meta = comp.compile_with_meta(inp, api_options)
        if "code" not in res:
            errors[name] = res
            continue
        if meta is not None:
            meta["sp_law"] = sp_law_factory(meta, options)
        key = normalize(res["code"])
        if key not in groups:
            groups[key] = [[name], res["code"], meta, options, res]
            order.append(key)
        else:
            groups[key][0].append(name)
    return [groups[k] for k in order], errors


def make_ref(case):
    rs = case.get("ref_src", case["src"])
    if rs is None:
        return None, None
    rc = ref.compile_ref(rs)
    rmods = None
    if case.get("ref_modules"):
        rmods = {}
        for name, (msrc, bind) in case["ref_modules"].items():
            rmods[name] = (ref.compile_ref(msrc, f"<{name}>"), bind)
    return rc, rmods


def events_filter_for(monitors):
    allowed = set()
    if "tags" in monitors:
        allowed.add("tag")
    if "calls" in monitors:
        allowed.update(("return-without-call", "stale-ra", "sp-law"))
    if "region" in monitors:
        allowed.update(("region-cross", "call-into-middle"))
    if "spbal" in monitors:
        allowed.add("sp-leak")
    return lambda e: e[0] in allowed


def run_case(case):
    """Evaluate one case completely.  Returns outcome dict."""
    key = case.get("key") or case_key(case)
    out = {"key": key, "family": case.get("family"), "idx": case.get("idx"), "symptom": None, "detail": None}
    st = {"compiles": len(case["variants"]), "codes": 0, "executions": 0, "transitions": 0, "states": 0, "traces": 0, "ref_compared": 0, "choice_points": 0, "capped": 0, "bound": None, "br_total": 0, "br_both": 0, "undefined": 0, "monitor_absent": 0, "undefined_sample": None}
    out["stats"] = st
    try:
        groups, errors = compile_variants(case)
    except Exception as e:  # compile_code must never raise (C10); report as symptom
        out["symptom"] = "compile-raised:" + type(e).__name__
        out["detail"] = {"exception": repr(e)[:300]}
        return out
    expect = case.get("expect", "ok")
    if expect == "error":
        if groups:
            out["symptom"] = "accepted-but-must-be-rejected"
            out["detail"] = {"variants": groups[0][0]}
        else:
            bad = [n for n, r in errors.items() if "stack_trace" in r.get("error", {})]
            if bad and case.get("error_must_be_clean"):
                out["symptom"] = "internal-error"
                out["detail"] = {"variants": bad, "description": errors[bad[0]]["error"]["description"][:300]}
        return out
    if errors and (case.get("reject_is_violation") or not groups):
        name, r = next(iter(errors.items()))
        st["rejected"] = 1
        st["reject_reason"] = err_symptom(r)
        if case.get("reject_must_match") and (not re.search(case["reject_must_match"], r["error"].get("description", "")) or "stack_trace" in r["error"]):
            out["symptom"] = "reject-reason:" + err_symptom(r)
            out["detail"] = {"variant": name, "description": r["error"].get("description", "")[:400]}
            return out
        if case.get("reject_is_violation"):
            out["symptom"] = "compile-error:" + err_symptom(r)
            out["detail"] = {"variant": name, "description": r["error"].get("description", "")[:400]}
        return out
    st["rejected_variants"] = len(errors)
    if errors and case.get("reject_must_match"):
        for name, r in errors.items():
            if not re.search(case["reject_must_match"], r["error"].get("description", "")) or "stack_trace" in r["error"]:
                out["symptom"] = "reject-reason:" + err_symptom(r)
                out["detail"] = {"variant": name, "description": r["error"].get("description", "")[:400]}
                return out
    if "regs" in case.get("static", ()):
        for names, text, meta, options, res in groups:
            for tok in re.findall(r"(?<![\w.$\"])r(\d+)(?![\w.\"])", normalize(text)):
                if int(tok) > 15:
                    out["symptom"] = "static:register-r%s" % tok
                    out["detail"] = {"variant": names[0], "code": text}
                    return out
    st["codes"] = len(groups)
    monitors = case.get("monitors", ["tags", "calls", "region", "spbal"])
    variants = []
    for names, text, meta, options, res in groups:
        if meta is None:
            st["monitor_absent"] += 1
        if meta is not None:
            if "tags" not in monitors:
                meta = dict(meta, tags=None)
        variants.append(xrun.Variant(names[0], text, meta))
    try:
        rc, rmods = make_ref(case)
    except SyntaxError as e:
        out["symptom"] = "harness:ref-syntax"
        out["detail"] = {"exception": repr(e)}
        return out
    res = xrun.explore(
        rc,
        variants,
        case.get("V", [0, 1, 2, 3]),
        K=case.get("K", 8),
        T=case.get("T", 2),
        cap=case.get("cap", 256),
        D=case.get("D"),
        ref_modules=rmods,
        events_filter=events_filter_for(monitors),
        poison=case.get("poison", True),
    )
    st.update(
        executions=res.executions,
        transitions=res.transitions,
        states=res.states,
        traces=len(res.traces),
        ref_compared=res.ref_compared,
        choice_points=res.choice_points,
        capped=int(res.capped),
        bound=res.bound,
        br_total=len(res.branch_cov),
        br_both=sum(1 for v in res.branch_cov.values() if v == 3),
        undefined=res.undefined,
        undefined_sample=res.undefined_sample,
    )
    out["sample"] = res.sample
    if res.executions == 0 and res.undefined > 0 and not res.bad:
        # the reference executor left its subset on every explored execution: nothing was checked (harness problem, never silent)
        out["symptom"] = "harness:reference-undefined-on-every-execution"
        out["detail"] = {"description": str(res.undefined_sample)}
    if res.bad:
        b = res.bad[0]
        out["symptom"] = symptom_of(b)
        code = next(g[1] for g in groups if g[0][0] == b["variant"])
        out["detail"] = dict(b, code=code, n_bad=len(res.bad))
    return out
