"""Program corpus shared by the pure enumeration checks (C08, C09, C17): every program of every family, de-duplicated,
as (family, source-or-module-map) pairs.  Deterministic."""
import glob
import os

from . import families as F


def programs(tier="quick", step=None):
    out = []
    seen = set()

    def add(fam, src, modules=None, name=None):
        key = (src, tuple(sorted((modules or {}).items())))
        if key in seen:
            return
        seen.add(key)
        out.append({"family": fam, "src": src, "modules": modules, "name": name})

    gens = [
        ("CTRL", lambda: F.ctrl(tier)),
        ("EXPR", lambda: F.expr(tier)),
        ("FUNC", lambda: F.func(tier)),
        ("FUNC2", lambda: F.func2(tier)),
        ("FUNC3", lambda: F.func3(tier)),
        ("LIST", lambda: F.lists(tier)),
        ("REG", lambda: F.reg(tier)),
        ("DEV", lambda: F.dev(tier)),
        ("TERM", lambda: F.term()),
        ("NAMES2", lambda: F.names_pairs()[::4]),
        ("NAMESLIB", lambda: F.names_lib()[::3]),
        ("LIB", lambda: F.lib(tier)),
        ("CALLARG", lambda: F.callarg(tier)),
        ("SYNTAX", lambda: F.syntax(tier)),
        ("GLOBALS", lambda: F.globals_family(tier)),
        ("DEADLIB", lambda: F.deadlib(tier)),
        ("NAMECLASH", lambda: F.names_clash()[::2]),
    ]
    for fam, g in gens:
        for c in g():
            add(fam, c["src"], c.get("modules"))
    # LIBTOP: library modules whose top-level code keeps values in registers, with no / trivial / ordinary functions
    k = 0
    for nlib in (1, 2):
        for nreg in (1, 2, 3):
            for fk in ("none", "noparam", "param"):
                for main_regs in (False, True):
                    mods = {}
                    imp = ""
                    calls = ""
                    for li in range(nlib):
                        mn = "lb%d" % li
                        body = "".join(f"g{j} = d{(j + li) % 6}.Setting\n" for j in range(nreg)) + "db.On = " + " + ".join(f"g{j}" for j in range(nreg)) + "\n"
                        if fk == "noparam":
                            body += "def ping():\n    db.Mode = g0\n"
                            calls += f"{mn}.ping()\n{mn}.ping()\n"
                        elif fk == "param":
                            body += "def ping(a):\n    t = a + g0\n    db.Mode = t\n"
                            calls += f"{mn}.ping(1)\n{mn}.ping(2)\n"
                        mods[mn] = body
                        imp += f"from library import {mn}\n"
                    main = imp + ("x = d0.Setting\ny = d1.Setting\ndb.Setting = x + y\n" if main_regs else "db.Setting = 1\n") + calls
                    add("LIBTOP", main, mods)
                    k += 1
    # the repository's own test cases, examples and library scripts
    repo = os.environ.get("PYTRAPIC_REPO", "/repo")
    for f in sorted(glob.glob(repo + "/test/cases/*.py")) + sorted(glob.glob(repo + "/src/stationeers_pytrapic/examples/*.py")):
        if f.endswith("__init__.py"):
            continue
        try:
            add("REPO", open(f, encoding="utf-8").read(), name="/".join(f.split("/")[-2:]))
        except OSError:
            pass
    libs = {}
    for f in sorted(glob.glob(repo + "/test/mod_libraries/*.py")):
        libs[os.path.basename(f)[:-3]] = open(f, encoding="utf-8").read()
    for f in sorted(glob.glob(repo + "/test/mod_scripts/*.py")):
        src = open(f, encoding="utf-8").read()
        add("REPO-LIB", src, {k: v for k, v in libs.items() if ("import " + k) in src}, name="/".join(f.split("/")[-2:]))
    if step:
        out = out[::step]
    return out
