"""Reference executor R of the source dialect -- DESIGN.md section 1.2.

CPython executes the source against mocks of the dialect's symbols; numbers are
wrapped in Num (IC10 arithmetic).  Shares no code with the compiler.
"""
import ast
import math

from .ic10 import HASHv, STRv, Horizon, enums, _BIN, _UN


def N(x):
    return x if isinstance(x, Num) else Num(float(x))


class Num:
    __slots__ = ("v",)

    def __init__(s, v):
        s.v = float(v)

    def __bool__(s):
        return s.v != 0

    def __float__(s):
        return s.v

    def __index__(s):
        return int(s.v)

    def __int__(s):
        return int(s.v)

    def __hash__(s):
        return hash(s.v)

    def _b(name):
        op = _BIN[name]

        def f(s, o):
            return Num(op(s.v, N(o).v))

        def rf(s, o):
            return Num(op(N(o).v, s.v))

        return f, rf

    __add__, __radd__ = _b("add")
    __sub__, __rsub__ = _b("sub")
    __mul__, __rmul__ = _b("mul")
    __truediv__, __rtruediv__ = _b("div")
    __mod__, __rmod__ = _b("mod")
    __pow__, __rpow__ = _b("pow")
    __xor__, __rxor__ = _b("xor")
    __and__, __rand__ = _b("and")
    __or__, __ror__ = _b("or")
    __lshift__, __rlshift__ = _b("sll")
    __rshift__, __rrshift__ = _b("srl")

    def __neg__(s):
        return Num(0.0 - s.v)

    def __pos__(s):
        return s

    def __lt__(s, o):
        return Num(s.v < N(o).v)

    def __le__(s, o):
        return Num(s.v <= N(o).v)

    def __gt__(s, o):
        return Num(s.v > N(o).v)

    def __ge__(s, o):
        return Num(s.v >= N(o).v)

    def __eq__(s, o):
        return Num(s.v == N(o).v)

    def __ne__(s, o):
        return Num(s.v != N(o).v)

    def __repr__(s):
        return f"Num({s.v})"


class StepLimit(Exception):
    pass


class RefUnsupported(Exception):
    pass


def _f(x):
    if isinstance(x, Num):
        return x.v
    if isinstance(x, bool):
        return float(x)
    if isinstance(x, (int, float)):
        return float(x)
    return x


class World:
    def __init__(self, env, K=8, T=2, tick_cap=3000):
        self.env, self.K, self.T = env, K, T
        self.trace = []
        self.ticks = 0
        self.loop = 0
        self.tick_cap = tick_cap
        self.stack = {}
        self.sp = 0
        self.rand_n = 0

    def effect(self, *e):
        self.trace.append(tuple(_f(x) for x in e))
        if e[0] in ("yield", "sleep"):
            self.ticks += 1
        if len(self.trace) >= self.K or self.ticks >= self.T:
            raise Horizon()

    def read(self, *key):
        return Num(self.env.read(tuple(_f(x) for x in key), len(self.trace)))


_TABLES = None


def tables():
    """Introspect the repository's structure tables: singular name -> prefab
    name, plural name -> prefab name, named slots -> index."""
    global _TABLES
    if _TABLES is None:
        from stationeers_pytrapic import structures_generated as sg
        from stationeers_pytrapic import types as ty

        sing, plur = {}, {}
        for k, v in vars(sg).items():
            if isinstance(v, type) and issubclass(v, ty._BaseStructure) and isinstance(getattr(v, "_prefab_name", None), str):
                if not k.startswith("_"):
                    sing[k] = v._prefab_name
            elif isinstance(v, ty._BaseStructures) and isinstance(getattr(v, "_prefab_name", None), str):
                plur[k] = v._prefab_name
        _TABLES = (sing, plur)
    return _TABLES


def named_slot(cls_name, attr):
    from stationeers_pytrapic import structures_generated as sg

    cls = getattr(sg, cls_name, None)
    if cls is None:
        return None
    p = getattr(cls, attr, None)
    if not isinstance(p, property):
        return None
    try:
        o = cls("d0")
        r = p.fget(o)
        return int(r._slot_index)
    except Exception:
        return None


class Dev:
    """Mock device: a pin (d0..d5, db), a reference id, or a batch (prefab hash
    [+ name hash]) with an optional batch mode already chosen."""

    def __init__(s, w, d=None, prefab=None, name=None, mode=None, cls=None, lt=None):
        object.__setattr__(s, "_w", w)
        object.__setattr__(s, "_d", d)
        object.__setattr__(s, "_p", prefab)
        object.__setattr__(s, "_n", name)
        object.__setattr__(s, "_m", mode)
        object.__setattr__(s, "_c", cls)
        object.__setattr__(s, "_lt", lt)

    def _nh(s):
        return float(HASHv(s._n)) if isinstance(s._n, str) else N(s._n).v

    def __getitem__(s, name):
        if s._d is not None:
            raise RefUnsupported("subscript on a pin device")
        return Dev(s._w, None, s._p, name, s._m, s._c)

    def _slotidx(s, n):
        if n.startswith("slot") and n[4:].isdigit():
            return int(n[4:])
        if s._c:
            return named_slot(s._c, n)
        return None

    def __getattr__(s, n):
        E = enums()
        batch = s._d is None
        if batch and n in E["LogicBatchMethod"].__members__ and not (s._lt is None and n in ("Maximum",) and False):
            if s._lt is not None:
                return s._rd(s._lt, n)
            if s._m is None:
                return Dev(s._w, None, s._p, s._n, n, s._c)
        si = s._slotidx(n)
        if si is not None:
            return Slot(s._w, s, si)
        if n not in E["LogicType"].__members__:
            raise RefUnsupported(f"attribute {n}")
        if batch:
            if s._m is None:
                return Dev(s._w, None, s._p, s._n, None, s._c, lt=n)
            return s._rd(n, s._m)
        return s._w.read("l", s._d, float(E["LogicType"][n]))

    def _rd(s, lt, mode):
        E = enums()
        ph = float(HASHv(s._p)) if isinstance(s._p, str) else N(s._p).v
        if s._n is None:
            return s._w.read("lb", ph, float(E["LogicType"][lt]), float(E["LogicBatchMethod"][mode]))
        return s._w.read("lbn", ph, s._nh(), float(E["LogicType"][lt]), float(E["LogicBatchMethod"][mode]))

    def __setattr__(s, n, v):
        E = enums()
        if n not in E["LogicType"].__members__:
            raise RefUnsupported(f"attribute {n}")
        lt = float(E["LogicType"][n])
        if s._d is not None:
            s._w.effect("s", s._d, lt, N(v))
        else:
            ph = float(HASHv(s._p)) if isinstance(s._p, str) else N(s._p).v
            if s._n is None:
                s._w.effect("sb", ph, lt, N(v))
            else:
                s._w.effect("sbn", ph, s._nh(), lt, N(v))


class Slot:
    def __init__(s, w, dev, i, lst=None):
        object.__setattr__(s, "_w", w)
        object.__setattr__(s, "_dev", dev)
        object.__setattr__(s, "_i", i)
        object.__setattr__(s, "_lst", lst)

    def __getattr__(s, n):
        E = enums()
        d = s._dev
        if d._d is None:
            # batch slot read: <Plural>.slotN.<SlotType>.<Mode> or mode chosen first
            if s._lst is not None and n in E["LogicBatchMethod"].__members__:
                return s._brd(s._lst, n)
            if n not in E["LogicSlotType"].__members__:
                raise RefUnsupported(f"slot attribute {n}")
            if d._m is not None:
                return s._brd(n, d._m)
            return Slot(s._w, d, s._i, n)
        if n not in E["LogicSlotType"].__members__:
            raise RefUnsupported(f"slot attribute {n}")
        return s._w.read("ls", d._d, float(s._i), float(E["LogicSlotType"][n]))

    def _brd(s, lst, mode):
        E = enums()
        d = s._dev
        ph = float(HASHv(d._p)) if isinstance(d._p, str) else N(d._p).v
        if d._n is None:
            return s._w.read("lbs", ph, float(s._i), float(E["LogicSlotType"][lst]), float(E["LogicBatchMethod"][mode]))
        return s._w.read("lbns", ph, d._nh(), float(s._i), float(E["LogicSlotType"][lst]), float(E["LogicBatchMethod"][mode]))

    def __setattr__(s, n, v):
        E = enums()
        if n not in E["LogicSlotType"].__members__:
            raise RefUnsupported(f"slot attribute {n}")
        d = s._dev
        lst = float(E["LogicSlotType"][n])
        if d._d is not None:
            s._w.effect("ss", d._d, float(s._i), lst, N(v))
        else:
            ph = float(HASHv(d._p)) if isinstance(d._p, str) else N(d._p).v
            if d._n is not None:
                # the source addresses only the devices of that name (IC10 has no such instruction: whatever is emitted cannot agree)
                nh = float(HASHv(d._n)) if isinstance(d._n, str) else N(d._n).v
                s._w.effect("sbns", ph, nh, float(s._i), lst, N(v))
                return
            s._w.effect("sbs", ph, float(s._i), lst, N(v))


class StackObj:
    def __init__(s, w, d):
        s.w, s.d = w, d

    def __getitem__(s, i):
        i = int(N(i).v)
        if s.d == "db":
            if i not in s.w.stack:
                s.w.stack[i] = Num(s.w.env.read(("stack", i), -1))
            return s.w.stack[i]
        return s.w.read("get", s.d, float(i))

    def __setitem__(s, i, v):
        i = int(N(i).v)
        if s.d == "db":
            s.w.stack[i] = N(v)
        else:
            s.w.effect("put", s.d, float(i), N(v))


class Rewrite(ast.NodeTransformer):
    def visit_BoolOp(s, n):
        s.generic_visit(n)
        f = "__and" if isinstance(n.op, ast.And) else "__or"
        e = n.values[-1]
        for v in reversed(n.values[:-1]):
            e = ast.Call(ast.Name(f, ast.Load()), [v, e], [])
        return e

    def visit_UnaryOp(s, n):
        s.generic_visit(n)
        if isinstance(n.op, ast.Not):
            return ast.Call(ast.Name("__not", ast.Load()), [n.operand], [])
        return n

    def visit_Constant(s, n):
        if isinstance(n.value, (int, float, bool)):
            return ast.Call(ast.Name("__N", ast.Load()), [n], [])
        return n

    def _tick(s, n):
        s.generic_visit(n)
        n.body.insert(0, ast.Expr(ast.Call(ast.Name("__tick", ast.Load()), [], [])))
        return n

    visit_While = _tick
    visit_For = _tick

    def visit_ImportFrom(s, n):
        return ast.Pass()

    def visit_Subscript(s, n):
        s.generic_visit(n)
        return n


def compile_ref(src, filename="<ref>"):
    t = ast.parse(src)
    t = Rewrite().visit(t)
    ast.fix_missing_locations(t)
    return compile(t, filename, "exec")


def _mk1(name):
    f = _UN[name]
    return lambda x: Num(f(N(x).v))


def _mk2(name):
    f = _BIN[name]
    return lambda a, b: Num(f(N(a).v, N(b).v))


def make_globals(w):
    def tick():
        w.loop += 1
        if w.loop > w.tick_cap:
            raise StepLimit()

    def rng(*a):
        a = [N(x).v for x in a]
        if len(a) == 1:
            start, stop, step = 0.0, a[0], 1.0
        elif len(a) == 2:
            start, stop, step = a[0], a[1], 1.0
        else:
            start, stop, step = a
        i = start
        while (i < stop) if step >= 0 else (i > stop):
            yield Num(i)
            i += step

    def devof(d):
        if isinstance(d, Dev):
            return d._d
        raise RefUnsupported("device argument")

    def structure(cls, prefab):
        def mk(d=None, ref_id=None, alias=None, name=None):
            if d is not None:
                return Dev(w, devof(d), prefab, cls=cls)
            if ref_id is not None:
                return Dev(w, ("ref", N(ref_id).v), prefab, cls=cls)
            raise RefUnsupported("structure without device")

        return mk

    def rand():
        w.rand_n += 1
        return w.read("rand", float(w.rand_n))

    g = {
        "__and": lambda a, b: Num(_BIN["and"](N(a).v, N(b).v)),
        "__or": lambda a, b: Num(_BIN["or"](N(a).v, N(b).v)),
        "__not": lambda a: Num(N(a).v == 0),
        "__N": Num,
        "__tick": tick,
        "__name__": "__main__",
        "range": rng,
        "db": Dev(w, "db"),
        "stack": StackObj(w, "db"),
        "HASH": lambda s: Num(HASHv(s)),
        "STR": lambda s: Num(STRv(s)),
        "yield_": lambda: w.effect("yield"),
        "sleep": lambda t: w.effect("sleep", N(t)),
        "pi": Num(math.pi),
        "tau": Num(2 * math.pi),
        "rgas": Num(8.31446261815324),
        "Stack": lambda d=None, ref_id=None: StackObj(w, devof(d) if d is not None else (("ref", N(ref_id).v) if ref_id is not None else "db")),
        "select": lambda c, a, b: (N(a) if N(c).v != 0 else N(b)),
        "rand": rand,
        "Device": lambda d=None, ref_id=None, alias=None: Dev(w, devof(d) if d is not None else ("ref", N(ref_id).v)),
        "Devices": lambda prefab, name=None: Dev(w, None, prefab, name),
    }
    for n in ("sqrt", "abs", "floor", "ceil", "round", "trunc", "exp", "log", "sin", "cos", "tan", "asin", "acos", "atan"):
        g[n] = _mk1(n)
    for n in ("add", "sub", "mul", "div", "mod", "pow", "max", "min", "atan2", "xor", "nor", "sll", "srl", "sla", "sra"):
        g[n] = _mk2(n)
    # own-stack and device intrinsics (statement / value forms of the IC10 instructions)
    own = StackObj(w, "db")

    def _push(v):
        own[w.sp] = v
        w.sp += 1

    def _pop():
        w.sp -= 1
        return own[w.sp]

    def _lt(x):
        return float(int(x)) if not isinstance(x, str) else float(int(enums()["LogicType"][x]))

    def _l(d, lt):
        return w.read("l", devof(d), _lt(lt))

    def _s(d, lt, v):
        w.effect("s", devof(d), _lt(lt), N(v))

    def _get(d, a):
        return StackObj(w, devof(d))[a]

    def _put(d, a, v):
        StackObj(w, devof(d))[a] = v

    g.update({"push": _push, "pop": _pop, "peek": lambda: own[w.sp - 1], "poke": lambda a, v: own.__setitem__(a, v), "l": _l, "get": _get, "put": _put})
    g["s_"] = _s
    g["and_"] = _mk2("and")
    g["or_"] = _mk2("or")
    g["not_"] = _mk1("not")
    g["move"] = lambda a: N(a)
    for c, f in (("eq", lambda x, y: x == y), ("ne", lambda x, y: x != y), ("lt", lambda x, y: x < y), ("le", lambda x, y: x <= y), ("gt", lambda x, y: x > y), ("ge", lambda x, y: x >= y)):
        g["s" + c] = (lambda f: lambda a, b: Num(f(N(a).v, N(b).v)))(f)
        g["s" + c + "z"] = (lambda f: lambda a: Num(f(N(a).v, 0.0)))(f)
    for i in range(6):
        g[f"d{i}"] = Dev(w, f"d{i}")
    sing, plur = tables()
    for k, p in sing.items():
        g[k] = structure(k, p)
    inv = {}
    for k, p in sing.items():
        inv.setdefault(p, k)
    for k, p in plur.items():
        g[k] = Dev(w, None, p, cls=inv.get(p))
    for k, e in enums().items():
        g[k] = e
    return g


class _ModNS:
    """Attribute view of a library module's global dict (live: later writes to globals are seen)."""

    def __init__(self, g):
        object.__setattr__(self, "_g", g)

    def __getattr__(self, n):
        try:
            return object.__getattribute__(self, "_g")[n]
        except KeyError:
            raise AttributeError(n)


def run_ref(code, env, K=8, T=2, modules=None, tick_cap=3000):
    """Execute compiled reference code.  modules: {name: code} are executed first
    into namespace objects bound to their names (library modules)."""
    w = World(env, K, T, tick_cap)
    g = make_globals(w)
    status = "halt"
    try:
        if modules:
            import types as _t

            for name, (mcode, bind) in modules.items():
                mg = make_globals(w)
                mg["__name__"] = name
                for other, ns in list(g.get("__mods", {}).items()):
                    mg[other] = ns
                exec(mcode, mg)
                ns = _ModNS(mg)
                g.setdefault("__mods", {})[bind] = ns
                g[bind] = ns
        exec(code, g)
    except Horizon:
        status = "horizon"
    except StepLimit:
        status = "diverge"
    except (IndexError, RefUnsupported, ZeroDivisionError, OverflowError, TypeError, AttributeError, NameError, ValueError) as e:
        # the source leaves the subset R defines (e.g. list index out of range):
        # this execution is outside the property's quantifier
        status = "undefined:" + type(e).__name__ + ":" + str(e)[:80]
    return w.trace, status, w
