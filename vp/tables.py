"""Introspection of the repository's generated tables (structures, enums, intrinsics) for C08 / C16.
Only *reads* the tables; every judgement is made with the harness's own CRC-32 and enum lookups."""
import enum
import inspect

from . import comp  # noqa: F401  (sys.path)


def modules():
    from stationeers_pytrapic import intrinsics, structures_generated, types, types_generated

    return structures_generated, types_generated, types, intrinsics


def structures():
    """[(singular name, singular class, plural class or None, [(global name, plural singleton)])]"""
    sg, tg, ty, _ = modules()
    sing = {}
    plur = {}
    for n, o in vars(sg).items():
        if isinstance(o, type) and isinstance(getattr(o, "_prefab_name", None), str) and "_hash" in vars(o):
            if issubclass(o, ty._BaseStructure):
                sing[n] = o
            elif issubclass(o, ty._BaseStructures):
                plur[n] = o
    inst = {}
    for n, o in vars(sg).items():
        if not isinstance(o, type) and isinstance(o, ty._BaseStructures) and type(o).__name__ in plur:
            inst.setdefault(type(o).__name__, []).append((n, o))
    return sing, plur, inst


def props(cls):
    """names of properties defined on cls or its bases (public)."""
    out = []
    for n in dir(cls):
        if n.startswith("_"):
            continue
        if isinstance(inspect.getattr_static(cls, n, None), property):
            out.append(n)
    return out


def all_enums():
    _, tg, _, _ = modules()
    return {k: v for k, v in vars(tg).items() if isinstance(v, type) and issubclass(v, enum.IntEnum) and not k.startswith("_")}


def intrinsic_functions():
    _, _, _, intr = modules()
    out = {}
    for n, o in vars(intr).items():
        if inspect.isfunction(o) and not n.startswith("_") and o.__module__ == intr.__name__:
            out[n] = o
    return out
