"""X-RUN: deviation-bounded stateless exploration of executions (DESIGN 1.3)."""
import math

from .ic10 import LazyEnv, Machine, Program
from . import ref as R

POISON = 7777.25


def val_eq(p, q):
    if isinstance(p, float) and isinstance(q, float):
        if p == q or (p != p and q != q):
            return True
        if math.isinf(p) or math.isinf(q):
            return False
        return math.isclose(p, q, rel_tol=1e-15, abs_tol=0.0)
    return p == q


def trace_eq(a, b):
    if len(a) != len(b):
        return False
    for x, y in zip(a, b):
        if len(x) != len(y) or x[0] != y[0]:
            return False
        for p, q in zip(x[1:], y[1:]):
            if not val_eq(p, q):
                return False
    return True


def status_class(s):
    return s.split(":")[0] if s else s


class Variant:
    def __init__(self, name, text, meta=None):
        self.name = name
        self.text = text
        self.prog = Program(text)
        self.meta = meta


class Result:
    __slots__ = ("executions", "transitions", "states", "choice_points", "capped", "bound", "traces", "bad", "branch_cov", "ref_compared", "max_dev", "sample", "undefined", "undefined_sample")

    def __init__(self):
        self.executions = 0
        self.transitions = 0
        self.states = 0
        self.choice_points = 0
        self.capped = False
        self.bound = None
        self.traces = set()
        self.bad = []
        self.branch_cov = {}
        self.ref_compared = 0
        self.max_dev = 0
        self.sample = None
        self.undefined = 0
        self.undefined_sample = None


def explore(ref_code, variants, V, K=8, T=2, cap=256, D=None, monitors=True, ref_modules=None, poison=True, events_filter=None, count_states=True, max_bad=3):
    """Explore every environment (sequence of answers from alphabet V) for one
    source program.  ref_code: compiled reference (or None -> differential only:
    the first variant plays the reference).  Returns Result; Result.bad holds
    dicts describing violations (at most max_bad are kept)."""
    res = Result()
    todo = [[]]
    states = set() if count_states else None
    nV = len(V)
    # decide bound: full product if it fits below cap, else deviation bound D
    first = True
    dev_bound = None
    while todo:
        if res.executions >= cap:
            res.capped = True
            break
        prefix = todo.pop()
        env = LazyEnv(prefix, V)
        if ref_code is not None:
            tR, sR, w = R.run_ref(ref_code, env, K, T, modules=ref_modules)
            loops = w.loop
            if sR.startswith("undefined"):
                res.undefined += 1
                res.undefined_sample = sR
                # still branch on the choice points seen so far
                n = len(env.choices)
                if first:
                    first = False
                    res.choice_points = n
                    dev_bound = (None if nV ** max(n, 0) <= cap else 2) if D is None else D
                nd = sum(1 for c in prefix if c)
                for i in range(len(prefix), n):
                    if dev_bound is not None and nd + 1 > dev_bound:
                        break
                    for alt in range(1, nV):
                        todo.append(env.choices[:i] + [alt])
                continue
            res.ref_compared += 1
        else:
            tR = sR = None
            loops = 40
        res.executions += 1
        runs = []
        for var in variants:
            for pz in ((None, POISON) if poison else (None,)):
                m = Machine(var.prog, env, K, T, cap=60 * loops + 600 + 40 * K, poison=pz, meta=var.meta if monitors else None, count_states=states if pz is None else None)
                m.run()
                res.transitions += m.steps
                if pz is None:
                    for pc, b in m.branch_cov.items():
                        key = (var.name, pc)
                        res.branch_cov[key] = res.branch_cov.get(key, 0) | b
                runs.append((var, pz, m))
        if tR is None:
            var0, _, m0 = runs[0]
            tR, sR = m0.trace, m0.status
        res.traces.add(hash(tuple(tR)))
        if res.sample is None:
            res.sample = {"choices": list(env.choices), "keys": [repr(k) for k in env.keys[:6]], "trace": [list(map(repr, e)) for e in tR[:6]], "status": sR}
        for var, pz, m in runs:
            ev = m.events
            if events_filter is not None:
                ev = [e for e in ev if events_filter(e)]
            mism = None
            if not trace_eq(tR, m.trace):
                mism = "trace"
            elif status_class(sR) != status_class(m.status):
                mism = "status"
            elif ev:
                mism = "monitor:" + str(ev[0][0])
            if mism and len(res.bad) < max_bad:
                res.bad.append(
                    {
                        "kind": mism,
                        "variant": var.name,
                        "poison": pz is not None,
                        "choices": list(env.choices),
                        "values": [V[c] for c in env.choices],
                        "ref_status": sR,
                        "got_status": m.status,
                        "ref_trace": [list(e) for e in tR],
                        "got_trace": [list(e) for e in m.trace],
                        "events": [list(map(str, e)) for e in ev[:4]],
                    }
                )
        n = len(env.choices)
        if first:
            first = False
            res.choice_points = n
            if D is None:
                # full product if small enough, else bounded deviations
                dev_bound = None if nV ** max(n, 0) <= cap else 2
            else:
                dev_bound = D
        nd = sum(1 for c in prefix if c)
        res.max_dev = max(res.max_dev, nd)
        for i in range(len(prefix), n):
            if dev_bound is not None and nd + 1 > dev_bound:
                break
            for alt in range(1, nV):
                todo.append(env.choices[:i] + [alt])
    res.bound = dev_bound
    res.states = len(states) if states is not None else 0
    return res


def replay(ref_code, variant, V, choices, K=8, T=2, ref_modules=None, poison=None, monitors=True):
    env = LazyEnv(choices, V)
    out = {}
    if ref_code is not None:
        tR, sR, w = R.run_ref(ref_code, env, K, T, modules=ref_modules)
        out["ref"] = (tR, sR)
        loops = w.loop
    else:
        loops = 40
    m = Machine(variant.prog, env, K, T, cap=60 * loops + 600 + 40 * K, poison=poison, meta=variant.meta if monitors else None)
    m.run()
    out["got"] = (m.trace, m.status, m.events)
    return out
