"""Reference IC10 machine M (explicit state) -- DESIGN.md section 1.1.

Independent of the repository's code generator: own tokenizer, own CRC-32, own
label resolver (exact token match), own literal parser.  Only the enum tables
(name -> number) are taken from the repository (types_generated), see DESIGN 2.
"""
import enum
import math
import re

# ----------------------------------------------------------------------------
# tables


def crc32_signed(b: bytes) -> int:
    c = 0xFFFFFFFF
    for x in b:
        c ^= x
        for _ in range(8):
            c = (c >> 1) ^ (0xEDB88320 if c & 1 else 0)
    c ^= 0xFFFFFFFF
    return c - (1 << 32) if c & 0x80000000 else c


def HASHv(s: str) -> int:
    return crc32_signed(s.encode("utf-8"))


def STRv(s: str) -> int:
    v = 0
    for ch in s:
        v = (v << 8) | ord(ch)
    return v


_ENUMS = None
_BARE = None


def enums():
    """name -> IntEnum class for every public enum of types_generated."""
    global _ENUMS, _BARE
    if _ENUMS is None:
        from stationeers_pytrapic import types_generated as tg

        _ENUMS = {
            k: v
            for k, v in vars(tg).items()
            if isinstance(v, type) and issubclass(v, enum.IntEnum) and not k.startswith("_")
        }
        _BARE = {}
        for en in ("LogicType", "LogicSlotType", "LogicBatchMethod", "LogicReagentMode"):
            if en in _ENUMS:
                for n, m in _ENUMS[en].__members__.items():
                    _BARE.setdefault(n, {})[en] = int(m)
    return _ENUMS


def bare_names():
    enums()
    return _BARE


# operand kinds: r = output register, v = value, d = device, t = LogicType,
# st = LogicSlotType, bm = LogicBatchMethod, rm = LogicReagentMode, l = jump target,
# n = new name (alias/define), rd = register or device
def _isa():
    I = {}

    def add(names, *kinds):
        for n in names.split():
            I[n] = kinds

    add("alias", "n", "rd")
    add("define", "n", "v")
    add("hcf yield")
    add("sleep", "v")
    add("abs ceil exp floor log round sqrt trunc acos asin atan cos sin tan move not", "r", "v")
    add("add div pow max min mod mul sub atan2 and nor or sla sll sra srl xor", "r", "v", "v")
    add("rand peek pop", "r")
    add("lerp ext select sap sna", "r", "v", "v", "v")
    add("ins", "r", "v", "v", "v")
    add("clr", "d")
    add("clrd push", "v")
    add("get", "r", "d", "v")
    add("getd", "r", "v", "v")
    add("poke", "v", "v")
    add("put", "d", "v", "v")
    add("putd", "v", "v", "v")
    add("l", "r", "d", "t")
    add("lr", "r", "d", "rm", "v")
    add("ls", "r", "d", "v", "st")
    add("s", "d", "t", "v")
    add("ss", "d", "v", "st", "v")
    add("rmap", "r", "d", "v")
    add("lb", "r", "v", "t", "bm")
    add("lbn", "r", "v", "v", "t", "bm")
    add("lbns", "r", "v", "v", "v", "st", "bm")
    add("lbs", "r", "v", "v", "st", "bm")
    add("sb", "v", "t", "v")
    add("sbn", "v", "v", "t", "v")
    add("sbs", "v", "v", "st", "v")
    add("sdns sdse", "r", "d")
    add("sapz snaz seq sge sgt sle slt sne", "r", "v", "v")
    add("seqz sgez sgtz slez sltz snez snan snanz", "r", "v")
    add("j jal", "l")
    add("jr", "v")
    add("bdnvl bdnvs", "d", "t", "l")
    add("bdns bdnsal bdse bdseal", "d", "l")
    add("brdns brdse", "d", "v")
    add("bap bapal bna bnaal", "v", "v", "v", "l")
    add("brap brna", "v", "v", "v", "v")
    add("bapz bapzal bnaz bnazal beq beqal bge bgeal bgt bgtal ble bleal blt bltal bne bneal", "v", "v", "l")
    add("brapz brnaz breq brge brgt brle brlt brne", "v", "v", "v")
    add("beqz beqzal bgez bgezal bgtz bgtzal blez blezal bltz bltzal bnez bnezal bnan", "v", "l")
    add("breqz brgez brgtz brlez brltz brnez brnan", "v", "v")
    return I


ISA = _isa()
KIND_ENUM = {"t": "LogicType", "st": "LogicSlotType", "bm": "LogicBatchMethod", "rm": "LogicReagentMode"}

REGS = {f"r{i}": i for i in range(16)}
REGS["sp"] = 16
REGS["ra"] = 17
DEVS = ("d0", "d1", "d2", "d3", "d4", "d5", "db")

_NUM_RE = re.compile(r"^-?\d+(\.\d+)?$")
_HEX_RE = re.compile(r"^\$[0-9A-Fa-f_]+$")
_BIN_RE = re.compile(r"^%[01_]+$")


def parse_literal(tok: str):
    """IC10 numeric literal -> python number, or None if tok is not a literal."""
    if _NUM_RE.match(tok):
        return float(tok) if "." in tok else int(tok)
    if _HEX_RE.match(tok):
        return int(tok[1:].replace("_", ""), 16)
    if _BIN_RE.match(tok):
        return int(tok[1:].replace("_", ""), 2)
    return None


def tokenize(line: str):
    """Split one line into tokens; '#' starts a comment unless inside a
    HASH("...") / STR("...") string.  Returns (tokens, comment or None)."""
    toks = []
    i, n = 0, len(line)
    cur = ""
    comment = None
    while i < n:
        ch = line[i]
        if ch == "#":
            comment = line[i:]
            break
        if ch in " \t":
            if cur:
                toks.append(cur)
                cur = ""
            i += 1
            continue
        if ch == '"':
            # string runs to the last '")' that closes it: next '"' followed by ')'
            j = line.find('")', i + 1)
            if j < 0:
                j = n - 1
                cur += line[i:]
                i = n
                continue
            cur += line[i : j + 2]
            i = j + 2
            continue
        cur += ch
        i += 1
    if cur:
        toks.append(cur)
    return toks, comment


class AsmError(Exception):
    pass


class Program:
    """Assembled program.  lines[i] is None (blank/comment), ('label', name) or a
    tuple (op, [decoded operands], raw tokens)."""

    def __init__(self, text: str):
        self.text = text
        self.raw = []
        self.labels = {}
        self.defines = {}
        self.dups = []
        for idx, raw in enumerate(text.split("\n")):
            toks, _ = tokenize(raw)
            if not toks:
                self.raw.append(None)
            elif len(toks) == 1 and toks[0].endswith(":"):
                name = toks[0][:-1]
                if name in self.labels:
                    self.dups.append(name)
                else:
                    self.labels[name] = idx
                self.raw.append(("label", name))
            else:
                self.raw.append(tuple(toks))
                if toks[0] == "define" and len(toks) == 3:
                    v = self.const(toks[2])
                    if v is not None:
                        self.defines[toks[1]] = v
        self.n = len(self.raw)
        self.lines = [self._decode(l) for l in self.raw]

    def const(self, t, kind=None):
        v = parse_literal(t)
        if v is not None:
            return float(v)
        if t.startswith('HASH("') and t.endswith('")'):
            return float(HASHv(t[6:-2]))
        if t.startswith('STR("') and t.endswith('")'):
            return float(STRv(t[5:-2]))
        en = KIND_ENUM.get(kind)
        if en:
            # an operand position that takes a logic type / slot type / batch method: the enumeration name wins over a label or
            # define of the same spelling (the game parses the enumeration when the line is loaded, names are looked up later)
            d = bare_names().get(t)
            if d and en in d:
                return float(d[en])
        if t in self.labels:
            return float(self.labels[t])
        if t in self.defines:
            return self.defines[t]
        if "." in t:
            a, _, b = t.partition(".")
            E = enums()
            if a in E and b in E[a].__members__:
                return float(E[a][b])
        B = bare_names()
        if t in B:
            d = B[t]
            en = KIND_ENUM.get(kind)
            if en and en in d:
                return float(d[en])
            vals = set(d.values())
            if len(vals) == 1:
                return float(next(iter(vals)))
            # ambiguous bare name in a plain value position: LogicType wins in the
            # game's parser order; report through .ambiguous
            return float(d.get("LogicType", next(iter(d.values()))))
        return None

    def _decode(self, l):
        if l is None or l[0] == "label":
            return l
        op = l[0]
        kinds = ISA.get(op)
        ops = []
        for j, t in enumerate(l[1:]):
            k = kinds[j] if kinds and j < len(kinds) else "v"
            if t in REGS:
                ops.append((1, REGS[t]))
            elif t in DEVS:
                ops.append((3, t))
            elif k == "n":
                ops.append((4, t))
            else:
                c = self.const(t, k)
                if c is not None:
                    ops.append((0, c))
                else:
                    ops.append((2, t))  # runtime name (alias)
        return (op, ops, l)


class Horizon(Exception):
    pass


class MachineFault(Exception):
    pass


class LazyEnv:
    """Environment = function (read key, epoch) -> value, built lazily from a
    prefix of alternative indices (DESIGN 1.3)."""

    def __init__(self, prefix, V):
        self.prefix = list(prefix)
        self.V = V
        self.map = {}
        self.choices = []
        self.keys = []

    def read(self, key, epoch):
        k = (key, epoch)
        v = self.map.get(k)
        if v is None:
            i = len(self.choices)
            alt = self.prefix[i] if i < len(self.prefix) else 0
            if alt >= len(self.V):
                raise RuntimeError("replay prefix asks for a non-existent alternative")
            self.choices.append(alt)
            self.keys.append(k)
            v = self.map[k] = float(self.V[alt])
        return v


def _div(x, y):
    if y != 0:
        return x / y
    if x == 0 or x != x:
        return math.nan
    return math.copysign(math.inf, x) * math.copysign(1.0, y)


def _mod(x, y):
    if y == 0 or x != x or y != y or math.isinf(x):
        return math.nan
    if math.isinf(y):
        z = x
    else:
        z = math.fmod(x, y)
    if z < 0:
        z += y
    return z


def _pow(x, y):
    try:
        return math.pow(x, y)
    except OverflowError:
        return math.inf
    except ValueError:
        return math.nan


def _toint(x):
    if x != x or math.isinf(x):
        return 0
    i = int(x)
    # wrap to signed 64 bit like a C# (long) cast of an in-range double
    i &= (1 << 64) - 1
    return i - (1 << 64) if i >> 63 else i


def _wrap64(i):
    i &= (1 << 64) - 1
    return i - (1 << 64) if i >> 63 else i


def _m1(f):
    def g(x):
        try:
            return float(f(x))
        except (ValueError, OverflowError):
            return math.nan

    return g


def _round(x):
    if x != x or math.isinf(x):
        return x
    return float(round(x))


_UN = {
    "sqrt": _m1(math.sqrt),
    "abs": abs,
    "floor": lambda x: x if (x != x or math.isinf(x)) else float(math.floor(x)),
    "ceil": lambda x: x if (x != x or math.isinf(x)) else float(math.ceil(x)),
    "round": _round,
    "trunc": lambda x: x if (x != x or math.isinf(x)) else float(math.trunc(x)),
    "exp": _m1(math.exp),
    "log": lambda x: (-math.inf if x == 0 else _m1(math.log)(x)),
    "sin": _m1(math.sin),
    "cos": _m1(math.cos),
    "tan": _m1(math.tan),
    "asin": _m1(math.asin),
    "acos": _m1(math.acos),
    "atan": _m1(math.atan),
    "not": lambda x: float(_wrap64(~_toint(x))),
}


def _shl(x, y):
    s = _toint(y)
    if s < 0 or s > 63:
        s &= 63
    return float(_wrap64(_toint(x) << s))


def _srl(x, y):
    s = _toint(y) & 63
    return float((_toint(x) & ((1 << 64) - 1)) >> s) if _toint(x) >= 0 else float(_wrap64((_toint(x) & ((1 << 64) - 1)) >> s))


def _sra(x, y):
    s = _toint(y) & 63
    return float(_toint(x) >> s)


_BIN = {
    "add": lambda x, y: x + y,
    "sub": lambda x, y: x - y,
    "mul": lambda x, y: x * y,
    "div": _div,
    "mod": _mod,
    "pow": _pow,
    "and": lambda x, y: float(_toint(x) & _toint(y)),
    "or": lambda x, y: float(_toint(x) | _toint(y)),
    "xor": lambda x, y: float(_toint(x) ^ _toint(y)),
    "nor": lambda x, y: float(_wrap64(~(_toint(x) | _toint(y)))),
    "sll": _shl,
    "sla": _shl,
    "srl": _srl,
    "sra": _sra,
    "max": lambda x, y: max(x, y),
    "min": lambda x, y: min(x, y),
    "atan2": lambda x, y: math.atan2(x, y),
}

_CMP = {
    "eq": lambda x, y: x == y,
    "ne": lambda x, y: x != y,
    "lt": lambda x, y: x < y,
    "le": lambda x, y: x <= y,
    "gt": lambda x, y: x > y,
    "ge": lambda x, y: x >= y,
}
_EPS8 = 1.1210387714598537e-44  # float.Epsilon * 8


def _ap(a, b, c):
    return abs(a - b) <= max(c * max(abs(a), abs(b)), _EPS8)


def _classify():
    """op -> (class, payload) dispatch table."""
    T = {}
    for op in _UN:
        T[op] = ("un", _UN[op])
    for op in _BIN:
        T[op] = ("bin", _BIN[op])
    for c, f in _CMP.items():
        T["s" + c] = ("set2", f)
        T["s" + c + "z"] = ("set1", f)
        for pre, rel in (("b", False), ("br", True)):
            T[pre + c] = ("br2", (f, rel, False))
            T[pre + c + "z"] = ("br1", (f, rel, False))
        T["b" + c + "al"] = ("br2", (f, False, True))
        T["b" + c + "zal"] = ("br1", (f, False, True))
    return T


_OPS = _classify()


class Machine:
    """One execution of one emitted program under one environment."""

    def __init__(self, prog: Program, env, K=8, T=2, cap=20000, poison=None, meta=None, count_states=None):
        self.p = prog
        self.env = env
        self.K, self.T, self.cap = K, T, cap
        self.R = [float(poison) if poison is not None else 0.0] * 16 + [0.0, 0.0]
        self.stack = {}
        self.alias = {}
        self.trace = []
        self.ticks = 0
        self.steps = 0
        self.status = None
        self.pc = 0
        self.rand_n = 0
        # monitors
        self.events = []  # CALLS / REGION / SPBAL / TAGS events
        self.shadow = []  # (return pc, sp at call, callee owner)
        self.meta = meta
        self.tagmap = meta["tags"] if meta and meta.get("tags") else None
        self.owner = meta["owner"] if meta and meta.get("owner") else None
        self.shadow_tag = {}
        self.states = count_states
        self.branch_cov = {}
        self.executed_after_main_end = 0

    # -- operand access -----------------------------------------------------
    def val(self, o):
        k = o[0]
        if k == 0:
            return o[1]
        if k == 1:
            return self.R[o[1]]
        if k == 2:
            a = self.alias.get(o[1])
            if a is not None and a[0] == 1:
                return self.R[a[1]]
            raise MachineFault(f"unresolved name {o[1]!r}")
        raise MachineFault(f"operand {o!r} used as value")

    def dev(self, o):
        k = o[0]
        if k == 3:
            return o[1]
        if k == 2:
            a = self.alias.get(o[1])
            if a is None:
                raise MachineFault(f"unresolved device name {o[1]!r}")
            if a[0] == 3:
                return a[1]
            return ("ref", self.R[a[1]])
        if k == 1:
            return ("ref", self.R[o[1]])
        if k == 0:
            return ("ref", o[1])
        raise MachineFault(f"bad device operand {o!r}")

    def setr(self, o, x):
        k = o[0]
        if k == 2:
            a = self.alias.get(o[1])
            if a is None or a[0] != 1:
                raise MachineFault(f"bad output register {o!r}")
            o = a
        elif k != 1:
            raise MachineFault(f"bad output register {o!r}")
        self.R[o[1]] = float(x)

    def effect(self, *e):
        self.trace.append(e)
        if e[0] in ("yield", "sleep"):
            self.ticks += 1
        if self.owner is not None and not self.shadow and self.R[16] != 0.0:
            # SPBAL: at main level sp must be at its initial value
            own = self.owner.get(self.pc)
            if own == "":
                self.events.append(("sp-leak", self.pc, self.R[16]))
        if len(self.trace) >= self.K or self.ticks >= self.T:
            raise Horizon()

    def read(self, *key):
        return self.env.read(key, len(self.trace))

    def stack_get(self, addr):
        if addr < 0 or addr >= 512:
            raise MachineFault(f"stack address {addr} out of range")
        v = self.stack.get(addr)
        if v is None:
            v = self.stack[addr] = self.env.read(("stack", addr), -1)
        return v

    def stack_put(self, addr, v):
        if addr < 0 or addr >= 512:
            raise MachineFault(f"stack address {addr} out of range")
        self.stack[addr] = v

    # -- run ------------------------------------------------------------------
    def run(self):
        lines = self.p.lines
        n = self.p.n
        try:
            while 0 <= self.pc < n:
                ins = lines[self.pc]
                if ins is None or ins[0] == "label":
                    self.pc += 1
                    continue
                self.steps += 1
                if self.steps > self.cap:
                    self.status = "diverge"
                    return self
                if self.states is not None:
                    self.states.add(hash((self.pc, tuple(self.R), len(self.trace), len(self.stack))))
                if self.tagmap is not None:
                    self._tags_pre(ins)
                nxt = self.step(ins)
                if self.tagmap is not None:
                    self._tags_post(ins)
                if self.owner is not None:
                    self._region(self.pc, nxt, ins)
                self.pc = nxt
            self.status = "halt" if self.pc >= n else "fault:negative pc"
        except Horizon:
            self.status = "horizon"
        except MachineFault as e:
            self.status = "fault:" + str(e)
        except (NotImplementedError,) as e:
            self.status = "unsupported:" + str(e)
        except (ValueError, OverflowError, IndexError) as e:
            self.status = "fault:" + repr(e)
        return self

    def jump(self, target):
        if target != target or math.isinf(target):
            raise MachineFault("jump to NaN/inf")
        return int(target)

    def step(self, ins):
        op, a, raw = ins
        pc = self.pc
        nxt = pc + 1
        v = self.val
        cls = _OPS.get(op)
        if cls is not None:
            c, f = cls
            if c == "bin":
                self.setr(a[0], f(v(a[1]), v(a[2])))
            elif c == "un":
                self.setr(a[0], f(v(a[1])))
            elif c == "set2":
                self.setr(a[0], 1.0 if f(v(a[1]), v(a[2])) else 0.0)
            elif c == "set1":
                self.setr(a[0], 1.0 if f(v(a[1]), 0.0) else 0.0)
            else:
                fn, rel, link = f
                if c == "br2":
                    taken = fn(v(a[0]), v(a[1]))
                    tgt = a[2]
                else:
                    taken = fn(v(a[0]), 0.0)
                    tgt = a[1]
                bc = self.branch_cov.get(pc, 0)
                self.branch_cov[pc] = bc | (1 if taken else 2)
                if taken:
                    t = self.jump(v(tgt))
                    nxt = pc + t if rel else t
                    if link:
                        self._link(pc, nxt)
            return nxt
        if op == "move":
            self.setr(a[0], v(a[1]))
        elif op == "l":
            self.setr(a[0], self.read("l", self.dev(a[1]), v(a[2])))
        elif op == "s":
            self.effect("s", self.dev(a[0]), v(a[1]), v(a[2]))
        elif op == "j":
            if a[0] == (1, 17):
                self._ret(pc)
            nxt = self.jump(v(a[0]))
        elif op == "jal":
            nxt = self.jump(v(a[0]))
            self._link(pc, nxt)
        elif op == "jr":
            nxt = pc + self.jump(v(a[0]))
        elif op == "yield":
            self.effect("yield")
        elif op == "sleep":
            self.effect("sleep", v(a[0]))
        elif op == "get":
            d = self.dev(a[1])
            addr = self.jump(v(a[2]))
            if d == "db":
                self.setr(a[0], self.stack_get(addr))
            else:
                self.setr(a[0], self.read("get", d, float(addr)))
        elif op == "put":
            d = self.dev(a[0])
            addr = self.jump(v(a[1]))
            if d == "db":
                self.stack_put(addr, v(a[2]))
            else:
                self.effect("put", d, float(addr), v(a[2]))
        elif op == "getd":
            self.setr(a[0], self.read("get", ("ref", v(a[1])), float(self.jump(v(a[2])))))
        elif op == "putd":
            self.effect("put", ("ref", v(a[0])), float(self.jump(v(a[1]))), v(a[2]))
        elif op == "poke":
            self.stack_put(self.jump(v(a[0])), v(a[1]))
        elif op == "push":
            x = v(a[0])
            self.stack_put(int(self.R[16]), x)
            self.R[16] += 1
        elif op == "pop":
            self.R[16] -= 1
            self.setr(a[0], self.stack_get(int(self.R[16])))
        elif op == "peek":
            self.setr(a[0], self.stack_get(int(self.R[16]) - 1))
        elif op == "select":
            self.setr(a[0], v(a[2]) if v(a[1]) != 0 else v(a[3]))
        elif op == "ls":
            self.setr(a[0], self.read("ls", self.dev(a[1]), v(a[2]), v(a[3])))
        elif op == "ss":
            self.effect("ss", self.dev(a[0]), v(a[1]), v(a[2]), v(a[3]))
        elif op == "lb":
            self.setr(a[0], self.read("lb", v(a[1]), v(a[2]), v(a[3])))
        elif op == "lbn":
            self.setr(a[0], self.read("lbn", v(a[1]), v(a[2]), v(a[3]), v(a[4])))
        elif op == "lbs":
            self.setr(a[0], self.read("lbs", v(a[1]), v(a[2]), v(a[3]), v(a[4])))
        elif op == "lbns":
            self.setr(a[0], self.read("lbns", v(a[1]), v(a[2]), v(a[3]), v(a[4]), v(a[5])))
        elif op == "sb":
            self.effect("sb", v(a[0]), v(a[1]), v(a[2]))
        elif op == "sbn":
            self.effect("sbn", v(a[0]), v(a[1]), v(a[2]), v(a[3]))
        elif op == "sbs":
            self.effect("sbs", v(a[0]), v(a[1]), v(a[2]), v(a[3]))
        elif op == "lr":
            self.setr(a[0], self.read("lr", self.dev(a[1]), v(a[2]), v(a[3])))
        elif op == "rmap":
            self.setr(a[0], self.read("rmap", self.dev(a[1]), v(a[2])))
        elif op == "alias":
            tgt = a[1]
            if tgt[0] == 2:
                tgt = self.alias.get(tgt[1])
                if tgt is None:
                    raise MachineFault("alias of unknown name")
            if tgt[0] not in (1, 3):
                raise MachineFault(f"alias target {raw[2]!r} is neither register nor device")
            self.alias[a[0][1]] = tgt
        elif op == "define":
            pass
        elif op == "sdse":
            self.setr(a[0], 1.0 if self.read("dse", self.dev(a[1])) != 0 else 0.0)
        elif op == "sdns":
            self.setr(a[0], 0.0 if self.read("dse", self.dev(a[1])) != 0 else 1.0)
        elif op in ("bdse", "bdns", "bdseal", "bdnsal", "brdse", "brdns"):
            isset = self.read("dse", self.dev(a[0])) != 0
            taken = isset if "dse" in op else not isset
            bc = self.branch_cov.get(pc, 0)
            self.branch_cov[pc] = bc | (1 if taken else 2)
            if taken:
                t = self.jump(v(a[1]))
                nxt = pc + t if op.startswith("br") else t
                if op.endswith("al"):
                    self._link(pc, nxt)
        elif op in ("sap", "sna"):
            r = _ap(v(a[1]), v(a[2]), v(a[3]))
            self.setr(a[0], 1.0 if (r == (op == "sap")) else 0.0)
        elif op in ("sapz", "snaz"):
            r = _ap(v(a[1]), 0.0, v(a[2]))
            self.setr(a[0], 1.0 if (r == (op == "sapz")) else 0.0)
        elif op == "snan":
            x = v(a[1])
            self.setr(a[0], 1.0 if x != x else 0.0)
        elif op == "snanz":
            x = v(a[1])
            self.setr(a[0], 0.0 if x != x else 1.0)
        elif op in ("bnan", "brnan"):
            x = v(a[0])
            if x != x:
                t = self.jump(v(a[1]))
                nxt = pc + t if op == "brnan" else t
        elif op in ("bap", "bna", "brap", "brna", "bapal", "bnaal"):
            r = _ap(v(a[0]), v(a[1]), v(a[2]))
            if r == ("ap" in op):
                t = self.jump(v(a[3]))
                nxt = pc + t if op.startswith("br") else t
                if op.endswith("al"):
                    self._link(pc, nxt)
        elif op in ("bapz", "bnaz", "brapz", "brnaz", "bapzal", "bnazal"):
            r = _ap(v(a[0]), 0.0, v(a[1]))
            if r == ("ap" in op):
                t = self.jump(v(a[2]))
                nxt = pc + t if op.startswith("br") else t
                if op.endswith("al"):
                    self._link(pc, nxt)
        elif op == "lerp":
            x, y, t = v(a[1]), v(a[2]), v(a[3])
            t = min(1.0, max(0.0, t))
            self.setr(a[0], x + (y - x) * t)
        elif op == "rand":
            self.rand_n += 1
            self.setr(a[0], self.read("rand", float(self.rand_n)))
        elif op == "clr":
            self.effect("clr", self.dev(a[0]))
        elif op == "clrd":
            self.effect("clr", ("ref", v(a[0])))
        elif op == "hcf":
            self.effect("hcf")
            nxt = self.p.n
        elif op in ("bdnvl", "bdnvs"):
            ok = self.read(op, self.dev(a[0]), v(a[1])) != 0
            if not ok:
                nxt = self.jump(v(a[2]))
        else:
            raise NotImplementedError(op)
        return nxt

    # -- monitors ---------------------------------------------------------------
    def _link(self, pc, target):
        self.R[17] = float(pc + 1)
        own = None
        if self.owner is not None:
            t = self._next_instr(target)
            own = self.owner.get(t)
            if self.meta["first"].get(own) != t:
                own = None  # not a function entry (e.g. the body of a for-over-list loop)
        self.shadow.append((pc + 1, self.R[16], own))

    def _next_instr(self, pc):
        lines = self.p.lines
        while 0 <= pc < self.p.n and (lines[pc] is None or lines[pc][0] == "label"):
            pc += 1
        return pc

    def _ret(self, pc):
        if not self.shadow:
            self.events.append(("return-without-call", pc))
            return
        rpc, rsp, own = self.shadow.pop()
        if rpc != int(self.R[17]):
            self.events.append(("stale-ra", pc, rpc, self.R[17]))
        if self.meta is not None and self.meta.get("sp_law") is not None:
            want = self.meta["sp_law"](rsp, own)
            if want is not None and self.R[16] != want:
                self.events.append(("sp-law", pc, own, rsp, self.R[16], want))

    def _region(self, pc, nxt, ins):
        o1 = self.owner.get(pc)
        n2 = self._next_instr(nxt)
        if n2 >= self.p.n:
            return
        o2 = self.owner.get(n2)
        if o1 == o2 or o1 is None or o2 is None:
            return
        op = ins[0]
        if op == "jal" or op.endswith("al"):
            # call edge: must land on the first instruction of the callee
            first = self.meta["first"].get(o2)
            if first is not None and n2 != first:
                self.events.append(("call-into-middle", pc, o1, o2))
            return
        if op == "j" and ins[1][0] == (1, 17):
            return  # return edge, judged by CALLS
        if op == "j" and self.shadow and n2 == self.meta["first"].get(o2) and o2 != "":
            # tail call: a plain jump to the entry of another function while a call
            # is being served; the callee now returns on behalf of the caller
            rpc, rsp, _ = self.shadow[-1]
            self.shadow[-1] = (rpc, rsp, None)
            return
        kind = "fall-through" if nxt == pc + 1 else "jump"
        self.events.append(("region-cross", kind, o1, o2, pc))

    def _tags_pre(self, ins):
        t = self.tagmap.get(self.pc)
        if t is None:
            return
        has_out, tags = t
        ops = ins[1]
        for j, tag in enumerate(tags):
            if j == 0 and has_out:
                continue
            if tag is None or j >= len(ops):
                continue
            o = ops[j]
            if o[0] == 1 and o[1] < 16:
                found = self.shadow_tag.get(o[1])
                if found != tag:
                    self.events.append(("tag", self.pc, f"r{o[1]}", tag, found))

    def _tags_post(self, ins):
        t = self.tagmap.get(self.pc)
        if t is None:
            return
        has_out, tags = t
        if has_out and tags and ins[1]:
            o = ins[1][0]
            if o[0] == 1 and o[1] < 16:
                self.shadow_tag[o[1]] = tags[0]


# ----------------------------------------------------------------------------
# static checks on emitted text (C05, C09)

JUMP_OPS = {op for op, k in ISA.items() if "l" in k}
REL_OPS = {op for op in ISA if op.startswith("br") or op == "jr"}


def static_lint(text: str, version_note: bool = False):
    """Parse every line against ISA.  Returns list of (lineno, message)."""
    prog_labels = {}
    problems = []
    lines = text.split("\n")
    aliases = {}
    defines = set()
    toks_per_line = []
    for i, raw in enumerate(lines):
        toks, comment = tokenize(raw)
        toks_per_line.append((toks, comment))
        if len(toks) == 1 and toks[0].endswith(":"):
            name = toks[0][:-1]
            if not re.match(r"^[A-Za-z_][A-Za-z0-9_.]*$", name):
                problems.append((i, f"bad label name {name!r}"))
            if name in prog_labels:
                problems.append((i, f"label {name!r} defined twice"))
            prog_labels[name] = i
            if raw != raw.strip() and raw.strip() == toks[0] and raw[0] in " \t":
                problems.append((i, "indented label"))
        elif toks and toks[0] == "alias" and len(toks) == 3:
            aliases[toks[1]] = toks[2]
        elif toks and toks[0] == "define" and len(toks) == 3:
            defines.add(toks[1])
    E = enums()
    B = bare_names()
    for i, (toks, comment) in enumerate(toks_per_line):
        if not toks:
            if lines[i].strip() == "" and len(lines) > 1:
                problems.append((i, "empty line"))
            continue
        if len(toks) == 1 and toks[0].endswith(":"):
            continue
        op = toks[0]
        kinds = ISA.get(op)
        if kinds is None:
            problems.append((i, f"unknown opcode {op!r}"))
            continue
        args = toks[1:]
        if len(args) != len(kinds):
            problems.append((i, f"{op}: expected {len(kinds)} operands, got {len(args)}: {args}"))
            continue
        for t, k in zip(args, kinds):
            bad = _operand_problem(t, k, prog_labels, aliases, defines, E, B)
            if bad:
                problems.append((i, f"{op}: operand {t!r} ({k}): {bad}"))
    return problems


_PLACEHOLDER = re.compile(r"__register\.|^None$|^True$|^False$|<.*object|^$|^nan$|^inf$|^-inf$")


def _operand_problem(t, k, labels, aliases, defines, E, B):
    if _PLACEHOLDER.search(t):
        return "placeholder / python spelling"
    isreg = t in REGS or (t in aliases and aliases[t] in REGS)
    isdev = t in DEVS or (t in aliases and aliases[t] in DEVS)
    lit = parse_literal(t)
    isnum = (
        lit is not None
        or (t.startswith('HASH("') and t.endswith('")'))
        or (t.startswith('STR("') and t.endswith('")'))
        or t in defines
    )
    if not isnum and "." in t:
        a, _, b = t.partition(".")
        if a in E and b in E[a].__members__:
            isnum = True
    if k == "r":
        return None if isreg else "not a register"
    if k == "n":
        return None if re.match(r"^[A-Za-z_][A-Za-z0-9_]*$", t) else "bad name"
    if k == "rd":
        return None if (isreg or isdev) else "not a register or device"
    if k == "d":
        # d0-d5, db, alias, or a reference id (number or register)
        return None if (isdev or isreg or isnum) else "not a device / reference id"
    if k == "l":
        return None if (t in labels or isnum or isreg) else "unresolved jump target"
    if k in KIND_ENUM:
        if isreg or isnum:
            return None
        if t in B and KIND_ENUM[k] in B[t]:
            return None
        return f"not a {KIND_ENUM[k]}"
    # plain value
    if isreg or isnum or t in labels:
        return None
    if t in B:
        return None  # bare enum name as a value (ambiguity judged by C08)
    return "not a value"
