"""C16 Device, enum and instruction tables are internally consistent (DESIGN 4, C16)."""
import inspect
import json
import os

from .. import comp, tables
from ..ic10 import ISA, HASHv, STRv, Program, enums, parse_literal, tokenize
from . import common

PROP = "C16"
LEVEL = "exploration"
RULE = (
    "X-ENUM, complete over the tables of the tree as it is: (A) every generated structure class with a prefab name (singular and "
    "plural): stored hash == harness CRC-32 (bitwise implementation, signed) of the prefab name; exactly one singular and one plural "
    "class per prefab name, equal hashes, the module-level plural object is an instance of the plural class and its batch accessors "
    "return the singular class; every property that yields a slot object carries the index of exactly one slotN property of the same "
    "class and of the same slot class; (B) through the real compiler: for every structure and every logic-type property 'X(d0).P' "
    "must emit 'l r? d0 <LogicType P>' and 'Xs.P.Maximum' must emit 'lb r? <hash> <LogicType P> Maximum' whose hash token evaluates to "
    "the CRC-32, and (for On / Setting / PrefabHash and every 7th other property) the named form 'Xs[\"nm\"].P.Sum' must emit 'lbn r? <hash> HASH(\"nm\") P Sum'; for every slot property and every slot type 'X(d0).S.T' must emit 'ls r? d0 <index> <LogicSlotType T>', 'Xs.S.T.Maximum' must emit 'lbs r? <hash> <index> T Maximum' and 'Xs[\"nm\"].S.T.Sum' must emit 'lbns r? <hash> HASH(\"nm\") <index> T Sum' (all "
    "properties, batched 40 per compiled program, verbose and compact); (C) every public function of intrinsics.py: called directly with "
    "distinct sentinel arguments and compiled from source -- opcode == own name (modulo a trailing '_'), operands == arguments in "
    "order, result register present iff the instruction table gives the opcode an output register, opcode listed in "
    "webapp/src/ic10.json and every listed instruction has a wrapper; HASH/STR by value over a string set; (D) every enum: no two "
    "member names share a number.  distinct_nontrivial = table entries judged."
)
ASSUME = ["the harness's CRC-32 and instruction table (vp/ic10.py) are independent of the repository", "which number the game assigns to a name cannot be checked offline; only internal consistency is"]


def strip_(n):
    return n[:-1] if n.endswith("_") else n


_CACHE = {}


def _by_prefab():
    if "bp" not in _CACHE:
        sing, plur, inst = tables.structures()
        bp = {}
        for name, cls in sing.items():
            bp.setdefault(cls._prefab_name, [[], []])[0].append(name)
        for name, cls in plur.items():
            bp.setdefault(cls._prefab_name, [[], []])[1].append(name)
        _CACHE["bp"] = (sing, plur, inst, bp)
    return _CACHE["bp"]


def check_struct(case):
    """(A) for one prefab name."""
    out = {"key": case["key"], "family": case["family"], "symptom": None, "detail": None}
    sing, plur, inst, bp = _by_prefab()
    _, _, ty, _ = tables.modules()
    prefab = case["prefab"]
    ss, pp = bp.get(prefab, [[], []])
    n = 1
    bad = []
    if len(ss) != 1 or len(pp) != 1:
        bad.append(("singular/plural-pairing", f"prefab {prefab!r}: singular classes {ss}, plural classes {pp}"))
    else:
        s, p = sing[ss[0]], plur[pp[0]]
        want = HASHv(prefab)
        if s._hash != want:
            bad.append(("hash", f"{ss[0]}._hash = {s._hash}, CRC-32({prefab!r}) = {want}"))
        if p._hash != want:
            bad.append(("hash", f"{pp[0]}._hash = {p._hash}, CRC-32({prefab!r}) = {want}"))
        objs = inst.get(pp[0], [])
        if len(objs) < 1:
            bad.append(("plural-object-missing", f"no module-level object of class {pp[0]}"))
        for gname, o in objs:
            if not isinstance(o, p):
                bad.append(("plural-object-class", gname))
            # the named plural form Xs["name"] must stay the same type (same prefab) and carry the name
            n += 1
            try:
                nm = o["some name"]
                if type(nm) is not p or getattr(nm, "_name", None) != "some name":
                    bad.append(("plural-named-form", f"{gname}['some name'] is {type(nm).__name__}(name={getattr(nm, '_name', None)!r}), expected {pp[0]}"))
                elif getattr(nm, "_prefab_name", None) != prefab or getattr(nm, "_hash", None) != want:
                    bad.append(("plural-named-form", f"{gname}['some name'] has prefab {getattr(nm, '_prefab_name', None)!r} / hash {getattr(nm, '_hash', None)}"))
            except Exception as e:  # noqa: BLE001
                bad.append(("plural-named-form", f"{gname}['some name'] raised {e!r}"))
            for bm in ("Average", "Sum", "Minimum", "Maximum"):
                n += 1
                try:
                    r = getattr(o, bm)
                    if type(r) is not s:
                        bad.append(("plural-accessor", f"{gname}.{bm} returns {type(r).__name__}, expected {ss[0]}"))
                except Exception as e:  # noqa: BLE001
                    bad.append(("plural-accessor", f"{gname}.{bm} raised {e!r}"))
        try:
            obj = s("d0")
        except Exception as e:  # noqa: BLE001
            obj = None
            bad.append(("instantiate", f"{ss[0]}('d0') raised {e!r}"))
        slot_by_index = {}
        named = []
        for pn in tables.props(s) if obj is not None else []:
            try:
                v = getattr(obj, pn)
            except Exception as e:  # noqa: BLE001
                bad.append(("property-raises", f"{ss[0]}.{pn}: {e!r}"))
                continue
            if isinstance(v, ty._BaseSlotType):
                n += 1
                idx = int(v._slot_index)
                if pn.startswith("slot") and pn[4:].isdigit():
                    if idx != int(pn[4:]):
                        bad.append(("slot-index", f"{ss[0]}.{pn} has index {idx}"))
                    if idx in slot_by_index:
                        bad.append(("slot-duplicate", f"{ss[0]}: two slot{idx} properties"))
                    slot_by_index[idx] = type(v)
                else:
                    named.append((pn, idx, type(v)))
        for pn, idx, t in named:
            if idx not in slot_by_index:
                bad.append(("named-slot-without-number", f"{ss[0]}.{pn} -> index {idx}, but there is no slot{idx}"))
            elif slot_by_index[idx] is not t:
                bad.append(("named-slot-class", f"{ss[0]}.{pn} is {t.__name__}, slot{idx} is {slot_by_index[idx].__name__}"))
    if bad:
        out["symptom"] = "table:" + "+".join(sorted({b[0] for b in bad}))
        out["detail"] = {"description": bad[0][1], "all": [b[1] for b in bad[:30]], "n_bad": len(bad)}
    out["stats"] = {"evaluations": n, "nontrivial": n}
    out["sample"] = {"prefab": prefab, "classes": [ss, pp]}
    return out


def check_enum(case):
    out = {"key": case["key"], "family": case["family"], "symptom": None, "detail": None}
    e = tables.all_enums().get(case["enum"])
    bad = []
    vals = {}
    n = 0
    if e is None:
        bad.append(f"enum {case['enum']} disappeared")
    else:
        for mn, m in e.__members__.items():
            n += 1
            if int(m) in vals:
                bad.append(f"{case['enum']}.{mn} and {case['enum']}.{vals[int(m)]} share the number {int(m)}")
            vals.setdefault(int(m), mn)
    if bad:
        out["symptom"] = "enum-duplicate-number"
        out["detail"] = {"description": bad[0], "all": bad[:20]}
    out["stats"] = {"evaluations": max(n, 1), "nontrivial": n}
    out["sample"] = {"enum": case["enum"], "members": n}
    return out


def _value(tok, kind):
    p = Program("")
    return p.const(tok, kind)


def check_compiled(case):
    """(B): batches of (structure, property) through the real compiler."""
    out = {"key": case["key"], "family": case["family"], "symptom": None, "detail": None}
    E = enums()
    LT, LST, LBM = E["LogicType"], E["LogicSlotType"], E["LogicBatchMethod"]
    items = case["items"]  # (singular, plural global, prop, kind, slot index or None, slot prop or None)
    lines = []
    expect = []
    for sname, pname, prop, kind, sidx, sprop in items:
        if kind == "lt":
            lines.append(f"db.Setting = {sname}(d0).{prop}")
            expect.append(("l", sname, prop, None))
            lines.append(f"db.Setting = {pname}.{prop}.Maximum")
            expect.append(("lb", sname, prop, None))
            if prop in ("Maximum", "Minimum", "Average", "Sum"):
                pass  # a logic type named like a batch accessor: 'Xs["nm"].Maximum.Sum' is read as accessor first (see F-16a)
            elif prop in ("On", "Setting", "PrefabHash") or (hash((sname, prop)) if False else sum(map(ord, sname + prop))) % 7 == 0:
                lines.append(f"db.Setting = {pname}[\"nm\"].{prop}.Sum")
                expect.append(("lbn", sname, prop, None))
        else:
            lines.append(f"db.Setting = {sname}(d0).{sprop}.{prop}")
            expect.append(("ls", sname, prop, sidx))
            # the same slot through the plural form: all devices of the type, and the devices of one name
            lines.append(f"db.Setting = {pname}.{sprop}.{prop}.Maximum")
            expect.append(("lbs", sname, prop, sidx))
            lines.append(f"db.Setting = {pname}[\"nm\"].{sprop}.{prop}.Sum")
            expect.append(("lbns", sname, prop, sidx))
    src = "\n".join(lines) + "\n"
    sing, _, _ = tables.structures()
    n = 0
    for compact in (False, True):
        res = comp.compile_code(src, comp.CompileOptions(**comp.opts(compact=compact)))
        if "code" not in res:
            out["symptom"] = "compile-error"
            out["detail"] = {"description": res["error"].get("description", "")[:400], "source": src[:2000]}
            break
        got = [tokenize(l)[0] for l in res["code"].split("\n")]
        got = [t for t in got if t and t[0] != "s"]
        if len(got) != len(expect):
            out["symptom"] = "unexpected-instruction-count"
            out["detail"] = {"description": f"{len(got)} load instructions for {len(expect)} accesses", "code": res["code"][:3000], "source": src[:2000]}
            break
        for t, (op, sname, prop, sidx) in zip(got, expect):
            n += 1
            why = None
            pm = strip_(prop)
            if t[0] != op:
                why = f"opcode {t[0]} instead of {op}"
            elif op == "l":
                if len(t) != 4 or t[2] != "d0" or _value(t[3], "t") != float(LT[pm] if pm in LT.__members__ else -1):
                    why = f"expected 'l r? d0 {pm}'"
            elif op == "lb":
                h = float(HASHv(sing[sname]._prefab_name))
                if len(t) != 5 or _value(t[2], "v") != h or _value(t[3], "t") != float(LT[pm] if pm in LT.__members__ else -1) or _value(t[4], "bm") != float(LBM["Maximum"]):
                    why = f"expected 'lb r? <{int(h)}> {pm} Maximum'"
            elif op == "lbn":
                h = float(HASHv(sing[sname]._prefab_name))
                if len(t) != 6 or _value(t[2], "v") != h or _value(t[3], "v") != float(HASHv("nm")) or _value(t[4], "t") != float(LT[pm] if pm in LT.__members__ else -1) or _value(t[5], "bm") != float(LBM["Sum"]):
                    why = f"expected 'lbn r? <{int(h)}> HASH(\"nm\") {pm} Sum'"
            elif op == "lbs":
                h = float(HASHv(sing[sname]._prefab_name))
                if len(t) != 6 or _value(t[2], "v") != h or _value(t[3], "v") != float(sidx) or _value(t[4], "st") != float(LST[pm] if pm in LST.__members__ else -1) or _value(t[5], "bm") != float(LBM["Maximum"]):
                    why = f"expected 'lbs r? <{int(h)}> {sidx} {pm} Maximum'"
            elif op == "lbns":
                h = float(HASHv(sing[sname]._prefab_name))
                if len(t) != 7 or _value(t[2], "v") != h or _value(t[3], "v") != float(HASHv("nm")) or _value(t[4], "v") != float(sidx) or _value(t[5], "st") != float(LST[pm] if pm in LST.__members__ else -1) or _value(t[6], "bm") != float(LBM["Sum"]):
                    why = f"expected 'lbns r? <{int(h)}> HASH(\"nm\") {sidx} {pm} Sum'"
            else:
                if len(t) != 5 or t[2] != "d0" or _value(t[3], "v") != float(sidx) or _value(t[4], "st") != float(LST[pm] if pm in LST.__members__ else -1):
                    why = f"expected 'ls r? d0 {sidx} {pm}'"
            if why and out["symptom"] is None:
                out["symptom"] = "compiled-access:" + op
                out["detail"] = {"description": f"{sname}.{prop}: {why}; emitted {' '.join(t)!r}", "compact": compact}
        if out["symptom"]:
            break
    out["stats"] = {"evaluations": n, "nontrivial": len(items)}
    out["sample"] = {"source_head": src[:200]}
    return out


def _listed():
    if "listed" not in _CACHE:
        path = os.environ.get("PYTRAPIC_REPO", "/repo") + "/webapp/src/ic10.json"
        try:
            _CACHE["listed"] = set(json.load(open(path)).get("instructions", []))
        except OSError:
            _CACHE["listed"] = set()
    return _CACHE["listed"]


INOUT = {"ins"}  # 'ins r? a b c' modifies r? in place: whether that is "an output register" is not judged


def check_intrinsic(case):
    out = {"key": case["key"], "family": case["family"], "symptom": None, "detail": None}
    fns = tables.intrinsic_functions()
    name = case["name"]
    fn = fns.get(name)
    bad = []
    if fn is None:
        bad.append(("intrinsic-missing", f"no wrapper named {name}"))
    else:
        op = strip_(name)
        params = list(inspect.signature(fn).parameters)
        args = [1000 + 7 * i for i in range(len(params))]
        ins = None
        try:
            ins = fn(*args)
        except Exception as e:  # noqa: BLE001
            bad.append(("intrinsic-raises", f"{name}{tuple(args)} raised {e!r}"))
        kinds = ISA.get(op)
        if ins is not None:
            if getattr(ins, "op", None) != op:
                bad.append(("intrinsic-opcode", f"{name} builds opcode {getattr(ins, 'op', None)!r}"))
            got = [getattr(i, "value", i) for i in ins.inputs]
            if got != args:
                bad.append(("intrinsic-operands", f"{name}{tuple(args)} builds operands {got}"))
            if kinds is None:
                bad.append(("intrinsic-unknown-opcode", f"{op} is not in the harness instruction table"))
            elif op not in INOUT:
                has_out = bool(ins.output)
                want_out = len(kinds) > 0 and kinds[0] == "r"
                if has_out != want_out:
                    bad.append(("intrinsic-result", f"{name}: result register {'present' if has_out else 'absent'}, instruction {'has' if want_out else 'has no'} output register"))
                if len(args) != len(kinds) - (1 if want_out else 0):
                    bad.append(("intrinsic-arity", f"{name} takes {len(args)} arguments, the instruction takes {len(kinds) - (1 if want_out else 0)} inputs"))
            if _listed() and op not in _listed():
                bad.append(("intrinsic-not-in-ic10-json", op))
            # from source, through the compiler, with run-time (register) arguments so that nothing is folded
            has_out = bool(ins.output)
            pre = "".join(f"a{i} = stack[{i}]\n" for i in range(len(args)))
            call = f"{name}({', '.join('a%d' % i for i in range(len(args)))})"
            src = pre + (f"db.Setting = {call}\n" if has_out else f"{call}\n")
            res = comp.compile_code(src, comp.CompileOptions(**comp.opts())) if not (kinds and "n" in kinds) else {"skip": 1}
            if "skip" in res:
                pass  # alias / define take a *name*: the compiled form with register arguments is not meaningful
            elif "code" not in res:
                bad.append(("intrinsic-compile-error", f"{src.strip()}: {res['error'].get('description', '')[:120]}"))
            else:
                toks = [tokenize(l)[0] for l in res["code"].split("\n")]
                toks = [t for t in toks if t]
                regof = {}
                for t in toks:
                    if t[0] == "get" and len(t) == 4 and t[2] == "db":
                        regof[int(parse_literal(t[3]))] = t[1]
                line = next((t for t in toks if t[0] == op and not (op == "get" and t[2] == "db" and t is not toks[-1] and False)), None)
                cand = [t for t in toks if t[0] == op]
                if op == "get":
                    cand = cand[len(args):]
                line = cand[0] if cand else None
                want = [regof.get(i) for i in range(len(args))]
                if line is None or (line[2:] if has_out else line[1:]) != want:
                    bad.append(("intrinsic-compiled", f"{call} emits {' '.join(line) if line else None!r}, expected operands {want}"))
    if bad:
        out["symptom"] = "intrinsic:" + "+".join(sorted({b[0] for b in bad}))
        out["detail"] = {"description": bad[0][1], "all": [f"{a}: {b}" for a, b in bad]}
    out["stats"] = {"evaluations": 2, "nontrivial": 1}
    out["sample"] = {"wrapper": name}
    return out


def check_misc(case):
    """ic10.json instructions without a wrapper; HASH / STR by value."""
    out = {"key": case["key"], "family": case["family"], "symptom": None, "detail": None}
    fns = tables.intrinsic_functions()
    _, _, ty, _ = tables.modules()
    wrappers = {strip_(n) for n in fns}
    bad = []
    n = 0
    for op in sorted(_listed() - wrappers - {"label"}):
        bad.append(("ic10-json-instruction-without-wrapper", op))
    n += len(_listed())
    strs = ["", "a", "Z", "ab", "Day", "a b", "é", "StructureBattery", "x_1", "N0", "-", ".", "a.b", "€uro", "Hello", "ABCDEF"]
    from stationeers_pytrapic.utils import OutputMode

    for s_ in strs:
        n += 1
        try:
            if s_:
                h = ty.compute_hash(s_, OutputMode.NUMERIC)
                if h != HASHv(s_):
                    bad.append(("HASH-value", f"HASH({s_!r}) = {h}, CRC-32 = {HASHv(s_)}"))
            if s_ and all(ord(c) < 128 for c in s_) and len(s_) <= 6:
                v = ty.compute_string(s_, OutputMode.NUMERIC)
                if v != STRv(s_):
                    bad.append(("STR-value", f"STR({s_!r}) = {v}, packing = {STRv(s_)}"))
        except Exception as e:  # noqa: BLE001
            bad.append(("HASH/STR-raises", f"{s_!r}: {e!r}"))
    if bad:
        out["symptom"] = "misc:" + "+".join(sorted({b[0] for b in bad}))
        out["detail"] = {"description": bad[0][1], "all": [f"{a}: {b}" for a, b in bad[:40]]}
    out["stats"] = {"evaluations": n, "nontrivial": n}
    out["sample"] = {"wrappers": len(wrappers), "listed_in_ic10_json": len(_listed())}
    return out


# open findings of the pinned tree, identified by table entry
F16A = {"StructureLogicPidController"}  # has logic types named Minimum / Maximum: they shadow the batch accessors of the plural form
F16B = {"bdns", "bdnsal", "bdse", "bdseal", "brdns", "brdse"}  # wrappers take only the jump target and put a result register where the device operand belongs
F16C = {"ext", "rmap"}  # the output register must be passed as the first argument; no result is yielded


def run_case(case):
    k = case.get("kind")
    if k == "struct":
        return check_struct(case)
    if k == "enum":
        return check_enum(case)
    if k == "intrinsic":
        return check_intrinsic(case)
    if k == "misc":
        return check_misc(case)
    return check_compiled(case)


def build_cases(tier):
    cases = [{"family": "MISC", "kind": "misc", "key": common.hkey("M")}]
    sing, plur, inst = tables.structures()
    for prefab in sorted({c._prefab_name for c in list(sing.values()) + list(plur.values())}):
        fam = "W-F16a" if prefab in F16A else "STRUCT"
        cases.append({"family": fam, "kind": "struct", "prefab": prefab, "key": common.hkey("S", prefab)})
    for en in sorted(tables.all_enums()):
        cases.append({"family": "ENUM", "kind": "enum", "enum": en, "key": common.hkey("E", en)})
    for name in sorted(tables.intrinsic_functions()):
        if name in ("HASH", "STR"):
            continue
        fam = "W-F16b" if name in F16B else ("W-F16c" if name in F16C else "INTRINSIC")
        cases.append({"family": fam, "kind": "intrinsic", "name": name, "key": common.hkey("I", name)})
    _, _, ty, _ = tables.modules()
    pl_by_prefab = {}
    for pn, cls in plur.items():
        for gname, o in inst.get(pn, []):
            pl_by_prefab.setdefault(cls._prefab_name, gname)
    items = []
    slot_items = []
    for sname, cls in sorted(sing.items()):
        gname = pl_by_prefab.get(cls._prefab_name)
        if gname is None:
            continue
        try:
            obj = cls("d0")
        except Exception:  # noqa: BLE001
            continue
        for pn in tables.props(cls):
            if pn == "Id":
                continue
            try:
                v = getattr(obj, pn)
            except Exception:  # noqa: BLE001
                continue
            if isinstance(v, ty._DeviceLogicType):
                items.append((sname, gname, pn, "lt", None, None))
            elif isinstance(v, ty._BaseSlotType):
                for sp in tables.props(type(v)):
                    try:
                        w = getattr(v, sp)
                    except Exception:  # noqa: BLE001
                        continue
                    if isinstance(w, ty._DeviceSlotType):
                        slot_items.append((sname, gname, sp, "st", int(v._slot_index), pn))
    if tier == "quick":
        slot_items = slot_items[::4]
    B = 40
    for j in range(0, len(items), B):
        cases.append({"family": "ACCESS-LT", "items": items[j : j + B], "key": common.hkey("LT", items[j : j + B])})
    for j in range(0, len(slot_items), 2 * B):
        cases.append({"family": "ACCESS-SLOT", "items": slot_items[j : j + 2 * B], "key": common.hkey("ST", slot_items[j : j + 2 * B])})
    return cases


def run(tier, propose=False):
    cases = build_cases(tier)
    return common.enum_check(PROP, tier, cases, run_case, LEVEL, RULE, ASSUME, propose_only=propose, nontrivial=lambda o: (o.get("stats") or {}).get("nontrivial", 0), exhaustive=(tier == "thorough"))


def replay(path):
    return common.replay_generic(path, run_case)
