"""Shared driver for checks built on X-RUN cases."""
import collections
import json
import time

from .. import comp, runner, xcase
from ..families import HDR


def warmup():
    # build astroid's view of the symbol module once, before forking workers
    comp.compile_with_meta(HDR + "db.Setting = 1\n", comp.opts())


def prepare(cases, default_variants=None):
    seen = {}
    out = []
    for c in cases:
        if default_variants is not None:
            c.setdefault("variants", default_variants)
        c["key"] = xcase.case_key(c)
        if c["key"] in seen:
            continue
        seen[c["key"]] = 1
        out.append(c)
    return out


def propose(cases, outs):
    groups = collections.OrderedDict()
    for c, o in zip(cases, outs):
        if o.get("symptom"):
            groups.setdefault((c.get("family"), o["symptom"]), {})[o["key"]] = o["symptom"]
    for (fam, sym), w in groups.items():
        print(json.dumps({"family": fam, "symptom": sym, "n": len(w), "witnesses": w}))


def xrun_check(prop, tier, cases, level, rule, assumptions, propose_only=False, fn=None, extra_cov=None, det_n=10, nontrivial=None):
    t0 = time.time()
    warmup()
    fn = fn or xcase.run_case
    outs = runner.pmap(fn, cases)
    det = runner.determinism_check(fn, cases, outs, n=det_n)
    if det:
        print(f"HARNESS-ERROR property={prop}: non-deterministic observations on re-run of case(s) {[d[0] for d in det]}")
        for d in det[:2]:
            print("  first:", d[1])
            print("  again:", d[2])
        return 3
    if propose_only:
        propose(cases, outs)
    nviol, hits, viol = runner.triage(prop, cases, outs)
    tot = runner.sum_stats(outs, ["compiles", "codes", "executions", "transitions", "states", "ref_compared", "choice_points", "capped", "undefined", "monitor_absent", "br_total", "br_both", "rejected"])
    fam = runner.per_family(outs)
    if nontrivial is None:
        nontrivial = lambda o: (o.get("stats") or {}).get("traces", 0) >= 2
    distinct_nontrivial = sum(1 for o in outs if nontrivial(o))
    samples = []
    seenf = set()
    for c, o in zip(cases, outs):
        if c.get("family") not in seenf and o.get("sample"):
            seenf.add(c.get("family"))
            samples.append({"family": c.get("family"), "source": c["src"], "modules": c.get("modules"), "variants": c["variants"], "alphabet": c.get("V"), "first_execution": o["sample"]})
    vac = [f for f, d in fam.items() if d["cases"] and d["single_trace"] == d["cases"] and not f.startswith("W-")]
    cov = {
        "evaluations": tot["executions"] or len(cases),
        "distinct_nontrivial": distinct_nontrivial,
        "rule": rule,
        "samples": samples[:8],
        "states": max(1, tot["states"]),
        "transitions": max(1, tot["transitions"]),
        "traces_validated_against_impl": tot["ref_compared"],
        "programs": len(cases),
        "compiles": tot["compiles"],
        "distinct_emitted_codes": tot["codes"],
        "executions": tot["executions"],
        "choice_points_default_runs": tot["choice_points"],
        "cases_capped": tot["capped"],
        "executions_outside_reference_subset": tot["undefined"],
        "codes_without_monitor_meta": tot["monitor_absent"],
        "programs_rejected_by_compiler": tot.get("rejected", 0),
        "branch_instructions": tot["br_total"],
        "branch_instructions_seen_both_ways": tot["br_both"],
        "families": fam,
        "vacuous_families": vac,
        "vacuous": bool(vac),
        "known_findings_hit": {k: v[1] for k, v in hits.items()},
        "exhaustive": tot["capped"] == 0,
        "bounds": "per case: alphabet V, effect horizon K, yield horizon T, execution cap; full product of answers when |V|^choice_points <= cap, else deviation bound 2 (cases_capped counts programs whose exploration hit the cap)",
    }
    if extra_cov:
        cov.update(extra_cov(cases, outs) if callable(extra_cov) else extra_cov)
    runner.write_evidence(prop, tier, level, cov, assumptions, time.time() - t0, nviol)
    print(f"{prop} {tier}: programs={len(cases)} compiles={tot['compiles']} codes={tot['codes']} executions={tot['executions']} transitions={tot['transitions']} states={tot['states']} ref-validated={tot['ref_compared']} capped={tot['capped']} rejected={tot.get('rejected', 0)} violations={nviol} known={sum(v[1] for v in hits.values())} wall={time.time() - t0:.1f}s")
    return 1 if nviol else 0


def replay_xcase(path, fn=None):
    d = json.load(open(path))
    warmup()
    out = (fn or xcase.run_case)(d["case"])
    print(json.dumps({"key": out["key"], "symptom": out.get("symptom"), "recorded_symptom": d.get("symptom")}, indent=1))
    if out.get("detail"):
        det = out["detail"]
        for k in ("variant", "values", "ref_status", "got_status", "ref_trace", "got_trace", "events", "description"):
            if k in det:
                print(f"{k}: {det[k]}")
        if "code" in det:
            print("--- source ---\n" + d["case"]["src"] + "--- emitted ---\n" + det["code"])
    return 1 if out.get("symptom") else 0
