"""Shared driver for checks built on X-RUN cases."""
import collections
import json
import time

from .. import comp, runner, xcase
from ..families import HDR


def warmup():
    # build astroid's view of the symbol module once, before forking workers
    comp.compile_with_meta(HDR + "db.Setting = 1\n", comp.opts())


def prepare(cases, default_variants=None):
    seen = {}
    out = []
    for c in cases:
        if default_variants is not None:
            c.setdefault("variants", default_variants)
        c["key"] = xcase.case_key(c)
        if c["key"] in seen:
            continue
        seen[c["key"]] = 1
        out.append(c)
    return out


def propose(cases, outs):
    groups = collections.OrderedDict()
    for c, o in zip(cases, outs):
        if o.get("symptom"):
            groups.setdefault((c.get("family"), o["symptom"]), {})[o["key"]] = o["symptom"]
    for (fam, sym), w in groups.items():
        print(json.dumps({"family": fam, "symptom": sym, "n": len(w), "witnesses": w}))


def xrun_check(prop, tier, cases, level, rule, assumptions, propose_only=False, fn=None, extra_cov=None, det_n=10, nontrivial=None):
    t0 = time.time()
    warmup()
    fn = fn or xcase.run_case
    outs = runner.pmap(fn, cases)
    det = runner.determinism_check(fn, cases, outs, n=det_n)
    if det:
        print(f"HARNESS-ERROR property={prop}: non-deterministic observations on re-run of case(s) {[d[0] for d in det]}")
        for d in det[:2]:
            print("  first:", d[1])
            print("  again:", d[2])
        return 3
    if propose_only:
        propose(cases, outs)
    nviol, hits, viol = runner.triage(prop, cases, outs)
    tot = runner.sum_stats(outs, ["compiles", "codes", "executions", "transitions", "states", "ref_compared", "choice_points", "capped", "undefined", "monitor_absent", "br_total", "br_both", "rejected"])
    fam = runner.per_family(outs)
    if nontrivial is None:
        nontrivial = lambda o: (o.get("stats") or {}).get("traces", 0) >= 2
    distinct_nontrivial = sum(1 for o in outs if nontrivial(o))
    samples = []
    seenf = set()
    for c, o in zip(cases, outs):
        if c.get("family") not in seenf and o.get("sample"):
            seenf.add(c.get("family"))
            samples.append({"family": c.get("family"), "source": c["src"], "modules": c.get("modules"), "variants": c["variants"], "alphabet": c.get("V"), "first_execution": o["sample"]})
    vac = [f for f, d in fam.items() if d["cases"] and d["single_trace"] == d["cases"] and not f.startswith("W-")]
    cov = {
        "evaluations": tot["executions"] or len(cases),
        "distinct_nontrivial": distinct_nontrivial,
        "rule": rule,
        "samples": samples[:8],
        "states": max(1, tot["states"]),
        "transitions": max(1, tot["transitions"]),
        "traces_validated_against_impl": tot["ref_compared"],
        "programs": len(cases),
        "compiles": tot["compiles"],
        "distinct_emitted_codes": tot["codes"],
        "executions": tot["executions"],
        "choice_points_default_runs": tot["choice_points"],
        "cases_capped": tot["capped"],
        "executions_outside_reference_subset": tot["undefined"],
        "codes_without_monitor_meta": tot["monitor_absent"],
        "programs_rejected_by_compiler": tot.get("rejected", 0),
        "branch_instructions": tot["br_total"],
        "branch_instructions_seen_both_ways": tot["br_both"],
        "families": fam,
        "vacuous_families": vac,
        "vacuous": bool(vac),
        "known_findings_hit": {k: v[1] for k, v in hits.items()},
        "exhaustive": tot["capped"] == 0,
        "bounds": "per case: alphabet V, effect horizon K, yield horizon T, execution cap; full product of answers when |V|^choice_points <= cap, else deviation bound 2 (cases_capped counts programs whose exploration hit the cap)",
    }
    if extra_cov:
        cov.update(extra_cov(cases, outs) if callable(extra_cov) else extra_cov)
    runner.write_evidence(prop, tier, level, cov, assumptions, time.time() - t0, nviol)
    print(f"{prop} {tier}: programs={len(cases)} compiles={tot['compiles']} codes={tot['codes']} executions={tot['executions']} transitions={tot['transitions']} states={tot['states']} ref-validated={tot['ref_compared']} capped={tot['capped']} rejected={tot.get('rejected', 0)} violations={nviol} known={sum(v[1] for v in hits.values())} wall={time.time() - t0:.1f}s")
    return 1 if nviol else 0


def replay_xcase(path, fn=None):
    d = json.load(open(path))
    warmup()
    out = (fn or xcase.run_case)(d["case"])
    print(json.dumps({"key": out["key"], "symptom": out.get("symptom"), "recorded_symptom": d.get("symptom")}, indent=1))
    if out.get("detail"):
        det = out["detail"]
        for k in ("variant", "values", "ref_status", "got_status", "ref_trace", "got_trace", "events", "description"):
            if k in det:
                print(f"{k}: {det[k]}")
        if "code" in det:
            print("--- source ---\n" + d["case"]["src"] + "--- emitted ---\n" + det["code"])
    return 1 if out.get("symptom") else 0


# ----------------------------------------------------------------------------
# call-shape families: split off the (shape, option) combinations that are the subject of an open finding

from .. import families as _F


def is_f02a(case):
    """FUNC shapes whose middle function ends in a plain call *and* contains another call:
    under tail_call_optimization these are the subject of finding F-02a."""
    tag = case.get("tag", "")
    if case.get("family") == "FUNC" and tag.startswith("chain2/"):
        rk = tag.split("/")[2]
        return rk not in _F.HASRET
    return False


def is_f04b(case):
    """FUNC2 shapes where a value-returning leaf is inlined inside an inlined mid (finding F-04b; only with inlining on)."""
    tag = case.get("tag", "").split("/")
    return case.get("family") == "FUNC2" and tag[1] in _F.LEAF_HASRET and tag[4] == "False" and tag[5] == "False"


def is_f06a(case):
    """FUNC2 shapes whose mid ends in a plain call statement to a value-returning leaf: under tail-call + push/pop the
    result pushed by the leaf is never popped (finding F-06a)."""
    tag = case.get("tag", "").split("/")
    return case.get("family") == "FUNC2" and tag[1] in _F.LEAF_HASRET and tag[2] == "tailstmt"


def split_call_case(c, vs):
    """Returns a list of cases (copies of c with 'variants' set): the main-family part and the witness parts."""
    g = lambda v, k: bool(v.get(k, k == "inline_functions"))
    parts = [(c, list(vs))]
    if is_f02a(c):
        parts = [(c, [v for v in vs if not g(v, "tail_call_optimization")]), (dict(c, family="W-F02a"), [v for v in vs if g(v, "tail_call_optimization")])]
    if is_f06a(c):
        bad = [v for v in vs if g(v, "tail_call_optimization") and g(v, "use_push_pop_functions")]
        parts = [(c, [v for v in vs if v not in bad]), (dict(c, family="W-F06a"), bad)]
    out = []
    for cc, vv in parts:
        if is_f04b(cc) and cc["family"] == "FUNC2":
            out.append(dict(cc, variants=[v for v in vv if not g(v, "inline_functions")]))
            out.append(dict(cc, variants=[v for v in vv if g(v, "inline_functions")], family="W-F04b"))
        else:
            out.append(dict(cc, variants=vv))
    return [o for o in out if o["variants"]]


# ----------------------------------------------------------------------------
# generic driver for complete enumerations (X-ENUM, X-SEQ) that do not use X-RUN

def enum_check(prop, tier, cases, fn, level, rule, assumptions, propose_only=False, extra_cov=None, det_n=6, nworkers=None, nontrivial=None, sample_of=None, do_warmup=True, exhaustive=True, mc_keys=None, slow_phase=None):
    """cases: list of dicts with 'key' and 'family'; fn(case) -> outcome dict {key, family, symptom, detail, stats:{evaluations, ...}, sample}."""
    t0 = time.time()
    if do_warmup:
        warmup()
    if slow_phase:
        # cases that depend on a helper process starting promptly (constexpr evaluation, 1 s limit inside the compiler) run first,
        # on a few workers only, so that the machine is not saturated while they run
        pred, nw = slow_phase
        first = [c for c in cases if pred(c)]
        rest = [c for c in cases if not pred(c)]
        cases[:] = first + rest
        outs = runner.pmap(fn, first, nworkers=nw) + runner.pmap(fn, rest, nworkers=nworkers)
    else:
        outs = runner.pmap(fn, cases, nworkers=nworkers)
    det = runner.determinism_check(fn, cases, outs, n=det_n) if det_n else []
    if det:
        print(f"HARNESS-ERROR property={prop}: non-deterministic observations on re-run of case(s) {[d[0] for d in det]}")
        for d in det[:2]:
            print("  first:", d[1][:400])
            print("  again:", d[2][:400])
        return 3
    if propose_only:
        propose(cases, outs)
    nviol, hits, viol = runner.triage(prop, cases, outs)
    evals = sum(int((o.get("stats") or {}).get("evaluations", 1)) for o in outs)
    if nontrivial is None:
        nontrivial = lambda o: int((o.get("stats") or {}).get("nontrivial", 1))
    dn = sum(int(nontrivial(o)) for o in outs)
    fam = {}
    for o in outs:
        f = fam.setdefault(o.get("family") or "?", {"cases": 0, "failing": 0, "evaluations": 0})
        f["cases"] += 1
        f["evaluations"] += int((o.get("stats") or {}).get("evaluations", 1))
        f["failing"] += 1 if o.get("symptom") else 0
    samples = []
    seenf = set()
    for c, o in zip(cases, outs):
        if c.get("family") not in seenf and (o.get("sample") is not None or sample_of):
            seenf.add(c.get("family"))
            samples.append({"family": c.get("family"), "case": sample_of(c, o) if sample_of else o.get("sample")})
    cov = {
        "evaluations": evals,
        "distinct_nontrivial": dn,
        "rule": rule,
        "samples": samples[:10],
        "cases": len(cases),
        "families": fam,
        "known_findings_hit": {k: v[1] for k, v in hits.items()},
        "exhaustive": bool(exhaustive),
    }
    if mc_keys:
        cov.update(mc_keys(cases, outs))
    if extra_cov:
        cov.update(extra_cov(cases, outs) if callable(extra_cov) else extra_cov)
    runner.write_evidence(prop, tier, level, cov, assumptions, time.time() - t0, nviol)
    print(f"{prop} {tier}: cases={len(cases)} evaluations={evals} nontrivial={dn} violations={nviol} known={sum(v[1] for v in hits.values())} wall={time.time() - t0:.1f}s")
    return 1 if nviol else 0


def replay_generic(path, fn):
    d = json.load(open(path))
    warmup()
    out = fn(d["case"])
    print(json.dumps({"key": out["key"], "symptom": out.get("symptom"), "recorded_symptom": d.get("symptom")}, indent=1))
    if out.get("detail"):
        for k, v in out["detail"].items():
            print(f"{k}: {str(v)[:3000]}")
    return 1 if out.get("symptom") else 0


def hkey(*parts):
    import hashlib

    return hashlib.sha256(json.dumps(parts, sort_keys=True, default=str, ensure_ascii=True).encode()).hexdigest()[:16]


def is_f04b_lib(case):
    """LIB shapes: a value-returning library function that calls another one, inlined at its single call site: its return-value
    register is allocated over the library's module-level variable (finding F-04b, inlining on only)."""
    t = case["tag"].split("/")
    return t[1] == "True" and t[2] == "True"


def split_lib_case(c, vs):
    g = lambda v: bool(v.get("inline_functions", True))
    if is_f04b_lib(c):
        out = [dict(c, variants=[v for v in vs if not g(v)]), dict(c, variants=[v for v in vs if g(v)], family="W-F04b")]
        return [o for o in out if o["variants"]]
    return [dict(c, variants=list(vs))]


def term_family(c, v):
    """TERM programs: with an out-of-line function the main code falls through into it (finding F-07).  Nothing is out of line
    when inlining is on and every *reachable* function has exactly one call site in reachable code (call sites inside functions
    that are never called do not count: that code is dropped)."""
    import ast

    tree = ast.parse(c["src"])
    funcs = {n.name: n for n in tree.body if isinstance(n, ast.FunctionDef)}

    def calls(nodes):
        out = []
        for n in nodes:
            for x in ast.walk(n):
                if isinstance(x, ast.Call) and isinstance(x.func, ast.Name) and x.func.id in funcs:
                    out.append(x.func.id)
        return out

    main_nodes = [n for n in tree.body if not isinstance(n, ast.FunctionDef)]
    reach, todo = set(), calls(main_nodes)
    while todo:
        f = todo.pop()
        if f not in reach:
            reach.add(f)
            todo += calls(funcs[f].body)
    if not reach:
        return "TERM"
    sites = calls(main_nodes) + [x for f in reach for x in calls(funcs[f].body)]
    single = all(sites.count(f) <= 1 for f in reach)
    if v.get("inline_functions", True) and single:
        return "TERM"
    return "W-F07"
