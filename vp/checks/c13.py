"""C13 Library modules behave like the same code in the main file (DESIGN 4, C13)."""
import itertools

from .. import comp, xcase
from .. import families as F
from ..ic10 import tokenize
from . import common

PROP = "C13"
LEVEL = "model_checking"
RULE = (
    "X-ENUM over the LIB family: 1..2 library modules x function returns a value or not x in-library call chain x main-file global and "
    "function named like the library's (collision) or not x import alias x never-called library function x __main__ block x "
    "module-level initialiser constant / device read x three call patterns; every program is compiled as a multi-module input and as "
    "its mechanically merged single-file form (library names prefixed by the module name) under the 8 vectors of inline x push/pop x "
    "remove_labels; X-RUN executes all distinct emitted programs for every explored device-answer sequence: all effect traces must be "
    "equal to each other and to the reference executor running the modules as separate namespaces (so equally named globals of "
    "different modules are distinguishable: each is written to its own logic type); the __main__ block's write must never appear; "
    "static: removing a never-called library function leaves the instruction count unchanged.  Non-trivial case = >= 2 distinct effect "
    "traces explored."
)
RULE += (
    ' Also DEADLIB (dropped code that mentions a library function) in library and merged form.'
)
ASSUME = [
    "reference IC10 machine M and reference executor R as in C01; R runs each library module's top-level code once, in import order, before the main file",
]

B3 = ("inline_functions", "use_push_pop_functions", "remove_labels")


def n_instr(text):
    n = 0
    for l in text.split("\n"):
        t = tokenize(l)[0]
        if t and not (len(t) == 1 and t[0].endswith(":")):
            n += 1
    return n


def run_case(case):
    out = xcase.run_case(case)
    if out.get("symptom") is None and case.get("twin_modules"):
        # a never-called library function contributes no instructions
        for v in case["variants"]:
            if v.get("_merged"):
                continue
            o = comp.CompileOptions(**comp.opts(**{k: x for k, x in v.items() if not k.startswith("_")}))
            r1 = comp.compile_code(dict(case["modules"], **{"": case["src"]}), o)
            r2 = comp.compile_code(dict(case["twin_modules"], **{"": case["src"]}), o)
            out["stats"]["compiles"] += 2
            if "code" in r1 and "code" in r2 and n_instr(r1["code"]) != n_instr(r2["code"]):
                out["symptom"] = "never-called-function-emits-code"
                out["detail"] = {"variant": str(v), "description": f"{n_instr(r1['code'])} instructions with the never-called function, {n_instr(r2['code'])} without", "code": r1["code"]}
                break
    return out


def vectors():
    return [dict(zip(B3, v)) for v in itertools.product([True, False], repeat=3)]


def build_cases(tier):
    cases = []
    vs = vectors()
    for c in F.lib(tier):
        vv = vs + [dict(v, _merged=True) for v in vs]
        cases += common.split_lib_case(c, vv)
    # dropped code that mentions a library function (the same mention of a main-file function is the merged form)
    for c in F.deadlib(tier):
        vv = vs + [dict(v, _merged=True) for v in vs]
        if c["family"] == "DEADLIB":
            cases.append(dict(c, variants=vv))
        elif c["family"] == "DEADLIB-TERM":
            cases.append(dict(c, variants=[v for v in vv if v.get("inline_functions", True)]))
    for c in cases:
        c["monitors"] = ["calls", "spbal", "region"]
    return common.prepare(cases)


def run(tier, propose=False):
    cases = build_cases(tier)
    return common.xrun_check(PROP, tier, cases, LEVEL, RULE, ASSUME, propose_only=propose, fn=run_case)


def replay(path):
    return common.replay_xcase(path, fn=run_case)
