"""C04 Register allocation never lets one live value overwrite another (DESIGN 4, C04)."""
import itertools

from .. import families as F
from . import common

PROP = "C04"
LEVEL = "model_checking"
RULE = (
    "X-ENUM over REG (k = 1..20 simultaneously live values x 11 lifetime shapes), FUNC, FUNC2, FUNC3 (call depth 4), WRAP (statements spanning several source lines), LATESTORE (a local stored to again after its last read while later locals are live), FORFN (for-range start / bound / step in parameters and locals x 6 loop bodies), LIB (library module-level registers), LIST, DEV and a CTRL sub-family under the four "
    "calling-convention vectors (inline x push/pop); X-RUN executes every distinct emitted program for every device answer sequence "
    "with the TAGS monitor attached: every register read through an operand that was virtual register v before allocation must find "
    "the value last written through v (shadow tags per physical register), plus equal traces from zeroed and poisoned registers and "
    "against the reference executor.  Static: only r0..r15/sp/ra occur; a rejection must be the out-of-registers error.  "
    "Non-trivial case = >= 2 distinct effect traces explored."
)
RULE += (
    ' Also CALLARG (calls as call arguments) and LIST contexts that bind the looked-up value to a name read twice.'
)
RULE += (
    ' Also GLOBALS (module-level variables written inside functions, initialisation before / after / between the function definitions).'
)
ASSUME = [
    "reference IC10 machine M and reference executor R as in C01",
    "pre-allocation register names are captured by wrapping generate_code.assign_registers in the harness; instruction k of the "
    "captured list corresponds to the k-th non-label output line (checked: opcode equality, else the monitor is dropped and counted)",
]

CONV = [dict(zip(("inline_functions", "use_push_pop_functions"), v)) for v in itertools.product([True, False], repeat=2)]


def build_cases(tier):
    cases = []
    for c in F.reg(tier):
        fam = "W-F04a" if c["shape"] == "refid-struct" else "REG"  # register-held device id in a function scope: F-04a
        cases.append(dict(c, family=fam, variants=CONV, reject_must_match=r"(?i)register", static=["regs"]))
    for c in F.func(tier) + F.func2(tier)[:: (3 if tier == "quick" else 1)] + F.callarg(tier):
        for cc in common.split_call_case(c, CONV):
            cases.append(dict(cc, static=["regs"]))
    for c in F.func3(tier):
        cases.append(dict(c, variants=CONV, static=["regs"]))
    # module-level variables written inside functions (whole-program lifetime whatever the order of definition and initialisation)
    for c in F.globals_family(tier):
        cases.append(dict(c, variants=CONV, static=["regs"]))
    # for-range loops in functions: start / bound / step held in parameters or locals must stay live around the loop
    for c in F.forfn(tier):
        cases.append(dict(c, variants=[{}, {"inline_functions": False}], static=["regs"], K=10))
    # multi-module programs: library module-level values live in registers across every call
    for c in F.lib(tier)[:: (2 if tier == "quick" else 1)]:
        for cc in common.split_lib_case(c, CONV):
            cases.append(dict(cc, static=["regs"]))
    for c in F.lists(tier, lens=range(2, 6)):
        cases.append(dict(c, variants=CONV, static=["regs"]))
    ctrl = F.ctrl("quick")
    for c in ctrl[:: (6 if tier == "quick" else 2)]:
        cases.append(dict(c, variants=[{}], static=["regs"]))
    for c in F.dev(tier):
        cases.append(dict(c, variants=[{}, {"inline_functions": False}], static=["regs"]))
    for c in F.wrap(tier):
        cases.append(dict(c, static=["regs"]))
    for c in F.latestore(tier):
        cases.append(dict(c, variants=[{}, {"inline_functions": False}], static=["regs"]))
    for c in F.intrinsic(tier):
        cases.append(dict(c, static=["regs"]))
    for c in F.w_alias_lifetime():
        cases.append(dict(c, variants=[{}, {"inline_functions": False}]))
    for c in cases:
        c["monitors"] = ["tags"]
    return common.prepare(cases)


def run(tier, propose=False):
    cases = build_cases(tier)
    return common.xrun_check(PROP, tier, cases, LEVEL, RULE, ASSUME, propose_only=propose)


def replay(path):
    return common.replay_xcase(path)
