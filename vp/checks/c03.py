"""C03 Compile-time evaluation equals run-time evaluation (DESIGN 4, C03).

Differential: for every expression template the *constant* form (operands written
as literals) and the *opaque* form (operands loaded from the chip's own stack,
answers supplied by the environment) are compiled by the real compiler; both run
on the reference machine M; the written values must agree.  The constant form is
additionally compared with the reference executor R (independent IC10 arithmetic)."""
import hashlib
import itertools
import json
import re

from .. import comp, ref, xrun, xcase
from ..ic10 import Machine, Program, tokenize
from . import common

PROP = "C03"
LEVEL = "model_checking"
RULE = (
    "X-ENUM, complete over: 18 binary operators x all ordered operand pairs from a 15-value set (domain-filtered per operator as "
    "the property's quantifier says), 2 unary operators and 10 math functions x 15 values, atan2 x pairs, HASH/STR strings, "
    "constant-list subscripts, named constants, each in 9 propagation shapes (direct, one variable, two variables, argument of an "
    "inlined / out-of-line call, global read in a function, if test, range bound, list index, loop-invariant); plus the CONSTPROP programs (13 shapes x constants in which a variable, parameter or global receives a constant in only one of several assignments: propagation must not fire; explored by X-RUN against the reference executor).  Every pair yields two "
    "compilations (literal operands / operands read from the stack); both emitted programs are executed on the explicit-state IC10 "
    "machine under the environment that answers exactly those operand values, plus the reference executor on the literal form; all "
    "effect traces must be equal.  A case (template) is non-trivial when at least one of its literal forms was really folded (fewer "
    "arithmetic opcodes than the opaque form) and its pairs gave >= 2 distinct traces."
)
ASSUME = [
    "reference IC10 machine M defines what the un-folded instruction computes (vp/ic10.py)",
    "operand values stay inside the property's unambiguous range: finite doubles, non-negative integers < 2^53 for bitwise/shift, positive modulus, non-negative integers for and/or (bitwise on the chip)",
]

VALS = ["0", "1", "-1", "2", "3", "7", "-7", "0.5", "-0.5", "2.5", "10", "255", "65536", "2147483648", "9007199254740991"]
SMALL = ["0", "1", "2", "3", "-1", "0.5", "7"]
BINOPS = ["+", "-", "*", "/", "%", "**", "and", "or", "^", "&", ">>", "<<", "==", "!=", "<", ">", "<=", ">="]
MATH1 = ["sqrt", "exp", "log", "sin", "cos", "tan", "asin", "acos", "atan"]
ARITH_OPS = re.compile(r"^(add|sub|mul|div|mod|pow|and|or|xor|nor|not|sll|srl|sla|sra|s(eq|ne|lt|le|gt|ge)z?|select|sqrt|exp|log|sin|cos|tan|asin|acos|atan|atan2|abs|floor|ceil|round|trunc|max|min)$")


def lit(v):
    return f"({v})" if v.startswith("-") else v


def in_domain(op, a, b):
    fa, fb = float(a), float(b)
    if op == "%":
        return fb > 0
    if op in ("^", "&", ">>", "<<"):
        if fa < 0 or fb < 0 or fa != int(fa) or fb != int(fb):
            return False
        if op in (">>", "<<") and fb > 31:
            return False
        if op == "<<" and fa * (2 ** fb) >= 2 ** 53:
            return False
        return True
    if op in ("and", "or"):
        # bitwise on the chip: non-negative integers (the same domain as & and ^)
        return fa >= 0 and fb >= 0 and fa == int(fa) and fb == int(fb)
    if op == "**":
        if fa < 0 and fb != int(fb):
            return False
        if fa == 0 and fb < 0:
            return False
        if abs(fb) > 64 and abs(fa) > 1:
            return False
        return True
    if op == "/":
        return fb != 0
    return True


def in_domain1(fn, a):
    fa = float(a)
    if fn == "sqrt":
        return fa >= 0
    if fn == "log":
        return fa > 0
    if fn in ("asin", "acos"):
        return -1 <= fa <= 1
    if fn == "exp":
        return fa < 700
    if fn in ("sin", "cos", "tan"):
        return abs(fa) < 1e6
    return True


# propagation shapes: {E} is the expression over {A}, {B}
SHAPES = {
    "direct": "db.Setting = {E}\n",
    "var1": "k = {E}\ndb.Setting = k\ndb.On = k\n",
    "var2": "p = {A}\nq = {B}\ndb.Setting = {Epq}\n",
    "callarg": "def f(u, v):\n    return {Euv}\nwhile True:\n    db.Setting = f({A}, {B})\n    yield_()\n",
    "callres": "def f(u):\n    db.On = u\n    return u\nwhile True:\n    db.Setting = f({E})\n    db.Mode = f(3)\n    yield_()\n",
    "globalfn": "KC = {E}\ndef f(u):\n    db.Setting = KC\n    db.On = u\nwhile True:\n    f(1)\n    f(2)\n    yield_()\n",
    "iftest": "if {E}:\n    db.Setting = 1\nelse:\n    db.Setting = 2\n",
    "loopinv": "k = {E}\nn = 0\nwhile n < 2:\n    db.Setting = k + n\n    n += 1\n",
    "ternary": "db.Setting = 5 if {E} else 6\n",
}
SMALL_SHAPES = {
    "rangebound": "for i in range({E}):\n    db.On = i\ndb.Setting = 9\n",
    "listindex": "arr = [10, 20, 30, 40]\ndb.Setting = arr[{E}]\n",
}


def subst(shape, expr_t, A, B):
    """expr_t uses {A}/{B}; returns source text."""
    E = expr_t.format(A=A, B=B)
    Epq = expr_t.format(A="p", B="q")
    Euv = expr_t.format(A="u", B="v")
    return shape.format(E=E, A=A, B=B, Epq=Epq, Euv=Euv)


def mk(family, expr_t, shape_name, shape, pairs, variants=None, arity=2):
    return {"family": family, "expr": expr_t, "shape": shape_name, "shape_t": shape, "pairs": pairs, "arity": arity, "variants": variants or [{}], "src": shape_name + "|" + expr_t}


def build_cases(tier):
    cases = []
    vals = VALS
    pairs_all = list(itertools.product(vals, repeat=2))
    shapes_q = ["direct", "var1", "iftest"]
    for op in BINOPS:
        et = "{A} " + op + " {B}"
        pairs = [(a, b) for a, b in pairs_all if in_domain(op, a, b)]
        for sn, sh in SHAPES.items():
            if tier == "quick" and sn not in shapes_q:
                # other shapes: reduced operand set on the quick tier
                pp = [(a, b) for a, b in pairs if a in SMALL and b in SMALL]
            else:
                pp = pairs
            v = [{}, {"inline_functions": False}] if sn in ("callarg", "callres", "globalfn") else [{}]
            cases.append(mk("BINOP", et, sn, sh, pp, v))
        # mixed forms: one operand literal, the other always loaded at run time (partial-constant folding must keep the value)
        for et2 in ("{A} " + op + " stack[1]", "stack[0] " + op + " {B}"):
            for sn in ("direct", "var1"):
                cases.append(mk("BINOP-MIXED", et2, sn, SHAPES[sn], pairs if tier == "thorough" else [(a, b) for a, b in pairs if a in SMALL + ["10", "255"] and b in SMALL + ["10", "255"]]))
        # result used as range bound / list index: only pairs whose value is a small index
        for sn, sh in SMALL_SHAPES.items():
            pp = []
            for a, b in pairs:
                if a in SMALL and b in SMALL and _nested_ok(et, a, b, lo=0, hi=3, integer=True):
                    pp.append((a, b))
            cases.append(mk("BINOP-IDX", et, sn, sh, pp, [{}], arity=2))
    for fn in ["-", "not "]:
        et = fn + "{A}"
        for sn, sh in SHAPES.items():
            if sn in ("var2", "callarg"):
                continue
            cases.append(mk("UNOP", et, sn, sh, [(a, "0") for a in vals], [{}, {"inline_functions": False}] if sn in ("callres", "globalfn") else [{}], arity=1))
    for fn in MATH1:
        et = fn + "({A})"
        pp = [(a, "0") for a in vals if in_domain1(fn, a)]
        for sn in ("direct", "var1", "iftest", "callres", "globalfn"):
            cases.append(mk("MATH", et, sn, SHAPES[sn], pp, [{}, {"inline_functions": False}] if sn in ("callres", "globalfn") else [{}], arity=1))
    cases.append(mk("MATH", "atan2({A}, {B})", "direct", SHAPES["direct"], [(a, b) for a, b in pairs_all if not (float(a) == 0 and float(b) == 0)]))
    cases.append(mk("MATH", "atan2({A}, {B})", "var2", SHAPES["var2"], [(a, b) for a, b in pairs_all if not (float(a) == 0 and float(b) == 0)]))
    # named constants and nested expressions (depth 2)
    for c in ("pi", "tau", "rgas"):
        for op in ("*", "+", "/", "<"):
            cases.append(mk("NAMED", c + " " + op + " {A}", "direct", SHAPES["direct"], [(a, "0") for a in vals if not (op == "/" and float(a) == 0)], arity=1))
            cases.append(mk("NAMED", "{A} " + op + " " + c, "var1", SHAPES["var1"], [(a, "0") for a in vals], arity=1))
    ops2 = ["+", "-", "*", "/", "%", "<", "==", "and", "**", "&", "<<"] if tier == "thorough" else ["+", "*", "/", "<", "%"]
    small_pairs = list(itertools.product(SMALL, repeat=2))
    for o1 in ops2:
        for o2 in ops2:
            for et in ("({A} " + o1 + " {B}) " + o2 + " {A}", "{B} " + o1 + " ({A} " + o2 + " {B})", "({A} " + o1 + " 2) " + o2 + " ({B} " + o1 + " 3)"):
                pp = []
                for a, b in small_pairs:
                    if _nested_ok(et, a, b):
                        pp.append((a, b))
                cases.append(mk("NESTED", et, "direct", SHAPES["direct"], pp))
    # chains whose intermediate results exceed 2^53 (exact integer arithmetic and double arithmetic differ)
    big = ["9007199254740992", "10000000000000000", "94906267", "94906266", "3", "35", "1", "1000", "4294967296"]
    bigpairs = [(a, b) for a in big for b in big]
    for et in ("({A} + {B}) - {A}", "({A} * {B}) % 1000", "({A} * {A}) - ({B} * {B})", "({A} + 1) - {A} + {B}", "({A} ** 3) % ({B} + 7)", "({A} * {B} + 1) - {A} * {B}", "({A} * {B}) // 1 if False else ({A} * {B}) - {B}"):
        pp = [(a, b) for a, b in bigpairs if _big_ok(et, a, b)]
        for sn in ("direct", "var1", "var2"):
            cases.append(mk("NESTED-BIG", et, sn, SHAPES[sn], pp))
    # list subscripts with constant index
    for n in (1, 2, 3, 5, 7):
        fam = "SUBSCR" if n < 6 else "W-LIST6+"  # run-time index into a list of >= 6 elements: finding F-01e
        arr = "[" + ", ".join(str(11 * (i + 1)) for i in range(n)) + "]"
        idx = [str(i) for i in range(n)]
        cases.append(mk(fam, arr + "[{A}]", "direct", SHAPES["direct"], [(i, "0") for i in idx], arity=1, variants=[{}]))
        cases.append(mk(fam, "arr[{A}] + 1", "arrvar", "arr = " + arr + "\ndb.Setting = {E}\n", [(i, "0") for i in idx], arity=1))
        cases.append(mk(fam, "arr[{A}] * 2", "arrfn", "arr = " + arr + "\ndef f(u):\n    return {Euv}\nwhile True:\n    db.Setting = f({A})\n    yield_()\n", [(i, "0") for i in idx], arity=1, variants=[{}, {"inline_functions": False}]))
    # HASH / STR arithmetic: oracle is R's own CRC-32 / packing (no opaque form exists for strings)
    strs = ["", "a", "Z", "ab", "Day", "a b", "é", "StructureBattery", "x_1", "N0"]
    for s in strs:
        q = json.dumps(s, ensure_ascii=False)
        for et in (f"HASH({q}) + {{A}}", f"HASH({q}) == HASH({q})", f"HASH({q}) % 7", f"{{A}} - HASH({q})", f"HASH({q}) > 0"):
            cases.append(mk("HASH", et, "direct", SHAPES["direct"], [("0", "0"), ("1", "0"), ("2.5", "0")], arity=1, variants=[{}, {"compact": True}]))
        if s and len(s) <= 6 and all(ord(ch) < 128 for ch in s):
            for et in (f"STR({q}) + {{A}}", f"STR({q}) * 2", f"STR({q}) == STR({q})"):
                cases.append(mk("STR", et, "direct", SHAPES["direct"], [("0", "0"), ("1", "0")], arity=1, variants=[{}, {"compact": True}]))
    for c in cases:
        blob = json.dumps([c["family"], c["expr"], c["shape"], c["shape_t"], c["pairs"], c["variants"]], sort_keys=True)
        c["key"] = hashlib.sha256(blob.encode()).hexdigest()[:16]
    # propagation must NOT happen for variables / parameters / globals that also receive a non-constant value
    from .. import families as F

    for c in F.constprop(tier):
        c = dict(c, variants=[{}, {"inline_functions": False}, {"inline_functions": False, "use_push_pop_functions": True}, {"compact": True, "remove_labels": True}], xrun=True, monitors=[], pairs=[1], expr=c["tag"], shape="program")
        c["key"] = xcase.case_key(c)
        cases.append(c)
    seen, out = set(), []
    for c in cases:
        if c["key"] not in seen and c["pairs"]:
            seen.add(c["key"])
            out.append(c)
    return out


def _big_ok(et, a, b):
    """double-arithmetic evaluation stays finite and every modulus is positive"""
    try:
        v = eval(et.format(A=float(a), B=float(b)), {"__builtins__": {}}, {})
        if "%" in et:
            m = eval(et.split("%")[1].strip().format(A=float(a), B=float(b)), {"__builtins__": {}}, {})
            if not (m > 0):
                return False
        return v == v and abs(v) < 1e300
    except Exception:  # noqa: BLE001
        return False


def _nested_ok(et, a, b, lo=None, hi=None, integer=False):
    """Evaluate the nested expression with exact python semantics to decide whether
    every sub-operation stays in the unambiguous domain."""
    import ast

    try:
        tree = ast.parse(et.format(A=lit(a), B=lit(b)), mode="eval").body
    except SyntaxError:
        return False

    def ev(n):
        if isinstance(n, ast.Constant):
            return float(n.value)
        if isinstance(n, ast.UnaryOp):
            return -ev(n.operand)
        if isinstance(n, ast.BoolOp):
            x, y = ev(n.values[0]), ev(n.values[1])
            if not in_domain("and", repr(x), repr(y)):
                raise ValueError
            return float(int(x) & int(y)) if isinstance(n.op, ast.And) else float(int(x) | int(y))
        if isinstance(n, ast.Compare):
            x, y = ev(n.left), ev(n.comparators[0])
            o = n.ops[0]
            return float({ast.Lt: x < y, ast.Eq: x == y, ast.NotEq: x != y, ast.Gt: x > y, ast.LtE: x <= y, ast.GtE: x >= y}[type(o)])
        x, y = ev(n.left), ev(n.right)
        o = type(n.op)
        sym = {ast.Add: "+", ast.Sub: "-", ast.Mult: "*", ast.Div: "/", ast.Mod: "%", ast.Pow: "**", ast.BitAnd: "&", ast.LShift: "<<", ast.RShift: ">>", ast.BitXor: "^"}[o]
        if not in_domain(sym, repr(x), repr(y)):
            raise ValueError
        if sym == "+":
            return x + y
        if sym == "-":
            return x - y
        if sym == "*":
            return x * y
        if sym == "/":
            return x / y
        if sym == "%":
            return x % y
        if sym == "**":
            r = x ** y
            if isinstance(r, complex) or abs(r) > 1e15:
                raise ValueError
            return r
        if sym == "&":
            return float(int(x) & int(y))
        if sym == "<<":
            return float(int(x) << int(y))
        if sym == ">>":
            return float(int(x) >> int(y))
        if sym == "^":
            return float(int(x) ^ int(y))
        raise ValueError

    try:
        v = ev(tree)
        if integer and v != int(v):
            return False
        if lo is not None and not (lo <= v <= hi):
            return False
        return v == v and abs(v) < 1e15
    except (ValueError, ZeroDivisionError, OverflowError, KeyError, TypeError):
        return False


def _veq(p, q):
    """Literals are printed with 16 significant digits (the tolerance C09 grants); a later
    addition can amplify that relative error by cancellation, so C03 compares with 1e-13."""
    import math

    if isinstance(p, float) and isinstance(q, float):
        if p == q or (p != p and q != q):
            return True
        if math.isinf(p) or math.isinf(q):
            return False
        return math.isclose(p, q, rel_tol=1e-13, abs_tol=1e-15)
    return p == q


def trace_eq(a, b):
    if len(a) != len(b):
        return False
    for x, y in zip(a, b):
        if len(x) != len(y) or x[0] != y[0]:
            return False
        if not all(_veq(p, q) for p, q in zip(x[1:], y[1:])):
            return False
    return True


class KeyEnv:
    """Environment that answers own-stack reads of cells 0/1 with the two operand
    values and everything else with 0 (DESIGN 1.1: answer = f(key, epoch))."""

    def __init__(self, a, b):
        self.m = {0.0: float(a), 1.0: float(b)}
        self.choices = []
        self.keys = []

    def read(self, key, epoch):
        if key[0] == "stack":
            return self.m.get(float(key[1]), 0.0)
        return 0.0


def n_arith(text):
    n = 0
    for l in text.split("\n"):
        t = tokenize(l)[0]
        if t and ARITH_OPS.match(t[0]):
            n += 1
    return n


def run_case(case):
    if case.get("xrun"):
        # whole programs explored by X-RUN against the reference executor (constant propagation must not fire)
        o = xcase.run_case(case)
        o["stats"]["folded"] = 1
        o["stats"]["pairs"] = o["stats"].get("executions", 0)
        return o
    out = {"key": case["key"], "family": case["family"], "symptom": None, "detail": None}
    st = {"compiles": 0, "codes": 0, "executions": 0, "transitions": 0, "states": 0, "traces": 0, "ref_compared": 0, "folded": 0, "pairs": len(case["pairs"]), "rejected": 0}
    out["stats"] = st
    states = set()
    traces = set()
    K, T = 6, 2
    for vo in case["variants"]:
        options = comp.opts(**vo)
        osrc = subst(case["shape_t"], case["expr"], "stack[0]", "stack[1]")
        ores, _ = comp.compile_with_meta(osrc, options)
        st["compiles"] += 1
        oprog = Program(ores["code"]) if "code" in ores else None
        n_op = n_arith(ores["code"]) if "code" in ores else None
        if oprog is None:
            st["rejected"] += 1
        for a, b in case["pairs"]:
            csrc = subst(case["shape_t"], case["expr"], lit(a), lit(b))
            cres, _ = comp.compile_with_meta(csrc, options)
            st["compiles"] += 1
            if "code" not in cres:
                # a constant expression the compiler refuses is not a C03 matter unless the opaque form is accepted
                st["rejected"] += 1
                if oprog is not None and "stack_trace" in cres.get("error", {}):
                    out["symptom"] = "const-form-internal-error"
                    out["detail"] = {"pair": [a, b], "source": csrc, "description": cres["error"].get("description", "")[:300]}
                    return out
                continue
            n_c = n_arith(cres["code"])
            folded = n_c == 0 or (n_op is not None and n_c < n_op)  # fewer arithmetic instructions than the opaque form
            st["folded"] += int(folded)
            env = KeyEnv(a, b)
            mc = Machine(Program(cres["code"]), env, K, T, cap=4000, count_states=states).run()
            st["executions"] += 1
            st["transitions"] += mc.steps
            traces.add(hash(tuple(mc.trace)))
            bad = None
            # oracle 1: reference executor on the literal form
            try:
                tR, sR, _ = ref.run_ref(ref.compile_ref(csrc), env, K, T)
            except SyntaxError:
                tR, sR = None, "undefined:syntax"
            if tR is not None and not sR.startswith("undefined"):
                st["ref_compared"] += 1
                if not trace_eq(tR, mc.trace) or xrun.status_class(sR) != xrun.status_class(mc.status):
                    bad = ("const-vs-reference", tR, sR)
            # oracle 2: the opaque form on M (what the un-folded instructions compute)
            if bad is None and oprog is not None:
                mo = Machine(oprog, env, K, T, cap=4000, count_states=states).run()
                st["executions"] += 1
                st["transitions"] += mo.steps
                if not trace_eq(mo.trace, mc.trace) or xrun.status_class(mo.status) != xrun.status_class(mc.status):
                    bad = ("const-vs-opaque", mo.trace, mo.status)
            if bad and out["symptom"] is None:
                dig = hashlib.sha256(json.dumps([vo, a, b, [list(map(str, e)) for e in mc.trace]], sort_keys=True).encode()).hexdigest()[:8]
                out["symptom"] = f"fold:{bad[0]}:{dig}"
                out["detail"] = {"variant": vo, "pair": [a, b], "const_source": csrc, "opaque_source": osrc, "const_code": cres["code"], "opaque_code": ores.get("code"), "const_trace": [list(e) for e in mc.trace], "const_status": mc.status, "other_trace": [list(e) for e in bad[1]], "other_status": bad[2], "folded": folded}
        st["codes"] += 1
    st["states"] = len(states)
    st["traces"] = len(traces)
    out["sample"] = {"template": case["expr"], "shape": case["shape"], "first_pair": case["pairs"][0], "pairs": len(case["pairs"])}
    return out


def run(tier, propose=False):
    cases = build_cases(tier)

    def extra(cases, outs):
        folded = sum((o.get("stats") or {}).get("folded", 0) for o in outs)
        pairs = sum((o.get("stats") or {}).get("pairs", 0) for o in outs)
        nofold = [c["shape"] + "|" + c["expr"] for c, o in zip(cases, outs) if (o.get("stats") or {}).get("folded", 0) == 0][:40]
        return {"operand_tuples": pairs, "literal_forms_really_folded": folded, "templates_never_folded": nofold, "exhaustive": True}

    for c in cases:
        c.setdefault("V", None)
    return common.xrun_check(
        PROP, tier, cases, LEVEL, RULE, ASSUME, propose_only=propose, fn=run_case, extra_cov=extra, det_n=6,
        nontrivial=lambda o: (o.get("stats") or {}).get("folded", 0) > 0 and (o.get("stats") or {}).get("traces", 0) >= 2,
    )


def replay(path):
    d = json.load(open(path))
    common.warmup()
    out = run_case(d["case"])
    print(json.dumps({"key": out["key"], "symptom": out.get("symptom"), "recorded_symptom": d.get("symptom")}, indent=1))
    if out.get("detail"):
        for k, v in out["detail"].items():
            print(f"{k}: {v}")
    return 1 if out.get("symptom") else 0
