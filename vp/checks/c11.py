"""C11 A compilation's result does not depend on what was compiled before (DESIGN 4, C11; X-SEQ)."""
import copy
import itertools
import json
import os
import pickle
import re
import subprocess
import sys

from .. import comp
from . import common

PROP = "C11"
LEVEL = "model_checking"
RULE = (
    "X-SEQ on the live compiler, two explorations over an alphabet of 21 compile requests chosen so that every piece of process-wide state named in the "
    "property's anchors is written by one request and read by another (verbose / compact output of one source; a directive-carrying "
    "source in the canonical and in a non-canonical spelling; two sources with the same constexpr call text but different function bodies and one with an identical helper script; a "
    "source that prints a positive prefab hash and large integers, i.e. the lazily built hash set; device alias / reference-id / Stack "
    "sources that touch the module-level device singletons; sources that assign / read the named registers sp, ra, r7; a source that aborts with an error in the middle of code generation; a "
    "multi-module source).  (1) Every history of length <= 2 (quick) / <= 3 (thorough; at most 2 steps when a constexpr request is "
    "involved) runs in its own fork of a pristine parent process that has imported the package but never compiled.  (2) Long "
    "histories: the de Bruijn sequence B(21, 3) (quick, 9261 steps) / B(21, 4) (thorough, 194481 steps), in which every window of 3 / 4 "
    "consecutive requests occurs, is run from 8 (quick) / 16 (thorough) different start offsets, each in one fork, with the options objects and source "
    "mappings reused throughout.  After EACH step of every history: "
    "result == the fresh-process oracle of that request (computed in 3 separate processes with different PYTHONHASHSEED, which must "
    "agree; whole dictionaries, object addresses normalised), the caller's options object and source mapping are unchanged (deep "
    "equality with copies), and a second pass of the same history that reuses one options object per option vector gives the same "
    "results.  states = distinct snapshots of the known mutable globals reached; transitions = compile calls."
)
ASSUME = [
    "the pristine parent has imported the package and bootstrapped astroid's builtins model (astroid.parse('pass')) but has never called compile_code",
    "fork() gives every history the same initial process state (copy-on-write of the pristine parent)",
    "the snapshot of known globals (output mode, constexpr cache size, hash-set built) is used for reporting only; the verdict is the comparison with the fresh-process oracle",
]

SRC_H = 'x = d0.Setting\ndb.Setting = HASH("Bank") + x\ndb.Mode = DisplayMode.Power\nGrowLights["North"].On = x > LogicType.Pressure\n'
CX = "@constexpr\ndef cx(a):\n    return a * {m} + 1\n"
CXL = "@constexpr\ndef table():\n    return [10, 20, 30, 40, 50, 60, 70]\n"
ALIAS = 'gs = GasSensor(d1, alias="SENS")\nst = Stack(d4)\nst[2] = gs.Pressure\nrid = d0.ReferenceId\nbt = Stack(ref_id=rid)\nbt[1] = stack[3] + st[2]\n'
ALIAS2 = 'gs = GasSensor(d2, alias=True)\ndb.Setting = gs.Temperature\nst = Stack(ref_id=255)\nst[0] = db.Setting\nstack[5] = st[4]\n'
ABORT = "def f(a):\n    db.On = a\n" + "".join(f"v{i} = d{i % 6}.Setting\n" for i in range(20)) + "f(1)\nf(2)\n" + "".join(f"db.Setting = v{i}\n" for i in range(20))
LIBMAIN = "from library import m\nm.setup()\nwhile True:\n    m.tick(d0.Setting)\n    m.tick(2)\n    yield_()\n"
LIB = 'count = 0\ndef setup():\n    db.Mode = HASH("Lib")\ndef tick(k):\n    global count\n    count = count + k\n    db.Setting = count\n'


CONSTNAME = 'NM = HASH("StorageTankNorth")\nTAG = STR("AB")\narr = [HASH("LongDeviceNameA"), HASH("LongDeviceNameB")]\nBatteries[NM].On = 1\ndb.Setting = TAG\ndb.Mode = arr[d0.Setting]\ndb.On = NM\n'


def pos_prefab_hash():
    from .. import tables

    sing, _, _ = tables.structures()
    hs = sorted(c._hash for c in sing.values() if c._hash > 10000)
    return hs[0]


def requests():
    ph = pos_prefab_hash()
    R = {
        "verbose": (SRC_H, {}),
        "compact": (SRC_H, {"compact": True, "remove_labels": True}),
        "directive": ("# pytrapic: compact, remove-labels, no-append-version\n" + SRC_H, {"append_version": True}),
        "directive-nospace": ("#pytrapic: compact, remove-labels\n##  pytrapic: no-inline-functions\n" + SRC_H, {}),
        "cx-body1": (CX.format(m=3) + "db.Setting = cx(7)\n", {}),
        "cx-body2": (CX.format(m=5) + "db.Setting = cx(7)\n", {}),
        "cx-same-script": (CX.format(m=3) + "db.On = cx(7)\ndb.Setting = d0.Setting\n", {"compact": True}),
        "hashset": (f"db.Setting = {ph}\ndb.On = {ph + 1}\ndb.Mode = 123456\ndb.Lock = 70000\n", {}),
        "alias": (ALIAS, {}),
        "alias2": (ALIAS2, {"compact": True}),
        "abort": (ABORT, {"inline_functions": False}),
        "syntax": ("db.Setting = = 3\n", {}),
        "modules": ({"": LIBMAIN, "m": LIB}, {"inline_functions": False}),
        # the module-level register objects of the dialect (sp, ra, r0..r15) written by one program, read by another
        "sp-write": ("sp = 0\npush(d0.Setting)\npush(d1.Setting)\nra = 5\n", {}),
        # a constexpr function returning a list: indexed at run time (jump table) by one program, iterated by another
        "cxlist-index": (CXL + "tb = table()\ndb.Setting = tb[d0.Setting]\n", {}),
        "cxlist-loop": (CXL + "for v in table():\n    db.On = v\n", {}),
        # the device singletons themselves bound to names / wrapped with alias=True, then used plainly by another program
        "dev-var": ("x = d0\nx.Setting = 1\ndv = Device(d2, alias=True)\ndv.On = x.On\nst = Stack(d0)\nst[1] = 2\n", {}),
        "dev-plain": ("db.Setting = d0.Setting + d2.On\nd0.On = stack[1]\nd2.Setting = 3\n", {"compact": True}),
        "sp-read": ("d0.Setting = sp\nd1.Setting = r7\nra = pop()\n", {}),
        # HASH / STR values that reach the output through constant propagation (bound to a name, element of a constant list): their
        # spelling depends on the output mode, which is process-wide state set per compilation
        "constname-verbose": (CONSTNAME, {}),
        "constname-compact": (CONSTNAME, {"compact": True}),
    }
    return R


CXREQ = {"cx-body1", "cx-body2", "cx-same-script", "cxlist-index", "cxlist-loop"}
_ADDR = re.compile(r"0x[0-9a-fA-F]+")


def norm(res):
    return json.loads(_ADDR.sub("0x", json.dumps(res, sort_keys=True, default=str)))


ORACLE_SCRIPT = r"""
import sys, json, pickle
sys.path.insert(0, sys.argv[1])
from stationeers_pytrapic.compiler import compile_code, CompileOptions
src, opts = pickle.loads(bytes.fromhex(sys.argv[2]))
r = None
for attempt in range(5):
    r = compile_code(src, CompileOptions(**opts))
    if not ("error" in r and "Timeout during evaluating constexpr" in str(r["error"].get("description"))):
        break
print("RESULT" + json.dumps(r, sort_keys=True, default=str))
"""


def fresh_oracle(name, src, opts):
    """Result of the request in fresh processes (3 hash seeds).  Returns (result, problem or None)."""
    repo = os.environ.get("PYTRAPIC_REPO", "/repo") + "/src"
    full = dict(comp.DEFAULTS)
    full.update(opts)
    outs = []
    import time as _time

    for seed in ("0", "1", "12345"):
        env = dict(os.environ, PYTHONHASHSEED=seed)
        res = None
        for attempt in range(6):
            p = subprocess.run([sys.executable, "-c", ORACLE_SCRIPT, repo, pickle.dumps((src, full)).hex()], capture_output=True, text=True, env=env, timeout=300)
            line = next((l for l in p.stdout.splitlines() if l.startswith("RESULT")), None)
            if line is None:
                return None, f"fresh process produced no result for request {name!r}: {p.stderr[-300:]}"
            res = json.loads(line[6:])
            if not comp.is_timeout(res):
                break
            _time.sleep(1 + attempt)  # the constexpr helper's 1 s limit was exceeded (machine load): not a result, try again
        if comp.is_timeout(res):
            return "INCONCLUSIVE", None
        outs.append(norm(res))
    if not (outs[0] == outs[1] == outs[2]):
        return outs[0], f"fresh processes with different PYTHONHASHSEED disagree on request {name!r}"
    return outs[0], None


def snapshot():
    from stationeers_pytrapic import utils

    return (int(utils._output_mode), len(utils._eval_constexpr_cache), bool(utils._all_hashes))


def run_history_in_child(hist, R, oracle):
    """Runs inside the forked child.  Returns dict."""
    states = []
    steps = 0
    for reuse in (False, True):
        pool = {}
        for i, name in enumerate(hist):
            src, opts = R[name]
            full = dict(comp.DEFAULTS)
            full.update(opts)
            if reuse:
                key = json.dumps(full, sort_keys=True)
                o = pool.get(key)
                if o is None:
                    o = pool[key] = comp.CompileOptions(**full)
            else:
                o = comp.CompileOptions(**full)
            before_o = copy.deepcopy(vars(o))
            src_arg = copy.deepcopy(src)
            before_s = copy.deepcopy(src_arg)
            try:
                res = comp.compile_code(src_arg, o)
            except BaseException as e:  # noqa: BLE001
                return {"symptom": "compile-raised:" + type(e).__name__, "step": i, "reuse": reuse, "description": repr(e)[:300]}
            steps += 1
            states.append(snapshot())
            if comp.is_timeout(res):
                return {"inconclusive": 1, "steps": steps, "states": states}
            if vars(o) != before_o:
                return {"symptom": "options-object-modified", "step": i, "reuse": reuse, "description": f"before {before_o} after {vars(o)}"}
            if src_arg != before_s:
                return {"symptom": "source-mapping-modified", "step": i, "reuse": reuse, "description": "the caller's source mapping was changed"}
            if oracle[name] == "INCONCLUSIVE":
                continue
            if norm(res) != oracle[name]:
                return {"symptom": "result-depends-on-history", "step": i, "reuse": reuse, "description": f"request {name!r} after {list(hist[:i])}: in-process result differs from the fresh-process result", "got": str(norm(res))[:1200], "fresh": str(oracle[name])[:1200]}
    return {"steps": steps, "states": states}


def de_bruijn(k, n):
    """Standard de Bruijn sequence B(k, n) over 0..k-1 (every length-n word occurs exactly once cyclically)."""
    a = [0] * k * n
    seq = []

    def db(t, p):
        if t > n:
            if n % p == 0:
                seq.extend(a[1 : p + 1])
        else:
            a[t] = a[t - p]
            db(t + 1, p)
            for j in range(a[t - p] + 1, k):
                a[t] = j
                db(t + 1, t)

    db(1, 1)
    return seq


def run_long_history_in_child(names, seq, rot, n, R, oracle):
    """One long history: the cyclic de Bruijn sequence started at offset rot (plus n-1 wrap-around steps), options objects and
    source mappings reused throughout.  Every step is compared with the fresh-process oracle."""
    L = len(seq)
    order = [seq[(rot + i) % L] for i in range(L + n - 1)]
    pool = {}
    srcs = {}
    states = set()
    steps = 0
    recent = []
    for i, idx in enumerate(order):
        name = names[idx]
        src, opts = R[name]
        full = dict(comp.DEFAULTS)
        full.update(opts)
        key = json.dumps(full, sort_keys=True)
        o = pool.get(key)
        if o is None:
            o = pool[key] = comp.CompileOptions(**full)
        src_arg = srcs.setdefault(name, copy.deepcopy(src))
        before_o = copy.deepcopy(vars(o))
        recent = (recent + [name])[-(n + 2):]
        try:
            res = comp.compile_code(src_arg, o)
        except BaseException as e:  # noqa: BLE001
            return {"symptom": "compile-raised:" + type(e).__name__, "step": i, "window": recent, "description": repr(e)[:300]}
        steps += 1
        states.add(snapshot())
        if comp.is_timeout(res):
            continue
        if vars(o) != before_o:
            return {"symptom": "options-object-modified", "step": i, "window": recent, "description": f"before {before_o} after {vars(o)}"}
        if src_arg != src:
            return {"symptom": "source-mapping-modified", "step": i, "window": recent, "description": "the caller's source mapping was changed"}
        if oracle[name] == "INCONCLUSIVE":
            continue
        if norm(res) != oracle[name]:
            return {"symptom": "result-depends-on-history", "step": i, "window": recent, "description": f"request {name!r} at step {i} of the long history (preceded by {recent[:-1]}): in-process result differs from the fresh-process result", "got": str(norm(res))[:1200], "fresh": str(oracle[name])[:1200]}
    return {"steps": steps, "states": sorted(states)}


_R = None
_ORACLE = None


def run_case(case):
    """One case = a chunk of histories; each history runs in its own fork of this (pristine) worker."""
    global _R
    out = {"key": case["key"], "family": case["family"], "symptom": None, "detail": None}
    R = _R
    oracle = _ORACLE
    import gc

    gc.collect()
    gc.freeze()  # keep this worker's heap out of the children's collections (copy-on-write faults dominate otherwise)
    n = steps = inconclusive = 0
    states = set()
    names = list(R)
    jobs = case["histories"] if case["family"] != "LONG" else [("__long__", case["rot"], case["n"])]
    for hist in jobs:
        r, w = os.pipe()
        pid = os.fork()
        if pid == 0:
            try:
                os.close(r)
                if hist and hist[0] == "__long__":
                    res = run_long_history_in_child(names, de_bruijn(len(names), hist[2]), hist[1], hist[2], R, oracle)
                else:
                    res = run_history_in_child(hist, R, oracle)
                with os.fdopen(w, "wb") as f:
                    pickle.dump(res, f)
            finally:
                os._exit(0)
        os.close(w)
        with os.fdopen(r, "rb") as f:
            data = f.read()
        os.waitpid(pid, 0)
        n += 1
        try:
            res = pickle.loads(data)
        except Exception:  # noqa: BLE001
            res = {"symptom": "history-child-died", "step": -1, "reuse": False, "description": "the forked child produced no result"}
        steps += res.get("steps", 0)
        inconclusive += res.get("inconclusive", 0)
        for s in res.get("states", []):
            states.add(tuple(s))
        if res.get("symptom") and out["symptom"] is None:
            out["symptom"] = res["symptom"]
            out["detail"] = dict(res, history=list(hist))
    out["stats"] = {"evaluations": n, "nontrivial": n, "transitions": steps, "state_list": sorted(states), "inconclusive": inconclusive}
    out["sample"] = {"history": list(case["histories"][-1])} if case["family"] != "LONG" else {"long_history": f"de Bruijn B({len(names)},{case['n']}) from offset {case['rot']}", "first_steps": [names[i] for i in de_bruijn(len(names), case["n"])[case["rot"] : case["rot"] + 8]]}
    return out


def build_cases(tier):
    names = list(requests())
    # (1) every short history from the pristine state, each in its own fork
    L = 2 if tier == "quick" else 3
    cxmax = 2
    hist = []
    for ln in range(1, L + 1):
        for h in itertools.product(names, repeat=ln):
            if sum(x in CXREQ for x in h) and ln > cxmax:
                continue
            if tier == "quick" and ln == 2 and any(x in CXREQ for x in h) and not all(x in CXREQ or x in ("verbose", "compact", "directive", "abort") for x in h):
                continue  # quick: a constexpr request is paired with the other constexpr requests and four state-writing ones
            hist.append(h)
    cx = [h for h in hist if any(x in CXREQ for x in h)]
    plain = [h for h in hist if not any(x in CXREQ for x in h)]
    cases = []
    for j in range(0, len(cx), 3):
        cases.append({"family": "HISTORIES-CX", "histories": cx[j : j + 3], "key": common.hkey("HC", tier, j)})
    for j in range(0, len(plain), 12):
        cases.append({"family": "HISTORIES", "histories": plain[j : j + 12], "key": common.hkey("H", tier, j)})
    # (2) long histories: the de Bruijn sequence over the alphabet (every window of n consecutive requests occurs), started at
    # 16 different offsets so that every window is met with 16 different pasts
    n = 3 if tier == "quick" else 4
    total = len(names) ** n
    nrot = 8 if tier == "quick" else 16
    for k in range(nrot):
        cases.append({"family": "LONG", "histories": [], "rot": (k * total) // nrot, "n": n, "key": common.hkey("LONG", tier, k)})
    cases.sort(key=lambda c: 0 if c["family"] == "LONG" else 1)
    return cases


def run(tier, propose=False):
    global _R, _ORACLE
    import time as _time

    t0 = _time.time()
    _R = requests()
    # the pristine parent: package imported, astroid's own builtins model bootstrapped (a cost of the astroid library, 0.3-0.7 s
    # per process, not compiler state), compile_code never called
    import astroid

    astroid.parse("pass")
    # fresh-process oracle, once per request (the parent itself never compiles: it stays pristine for the forks)
    _ORACLE = {}
    problems = []
    from concurrent.futures import ThreadPoolExecutor

    with ThreadPoolExecutor(12) as ex:
        futs = {n: ex.submit(fresh_oracle, n, s, o) for n, (s, o) in _R.items()}
        for n, f in futs.items():
            res, prob = f.result()
            _ORACLE[n] = res
            if prob:
                problems.append(prob)
    if problems:
        # seed-dependent or missing results are themselves violations of C11 (result must equal the fresh-process result)
        path = common.runner.write_replay(PROP, {"family": "ORACLE", "key": "oracle", "problems": problems}, {"key": "oracle", "symptom": "fresh-process-results-disagree", "detail": {"problems": problems}})
        print(f"VIOLATION property={PROP} replay={path}")
        for p in problems:
            print("  " + p)
        common.runner.write_evidence(PROP, tier, LEVEL, {"states": 1, "transitions": 1, "traces_validated_against_impl": 0, "samples": [{"problems": problems}], "evaluations": 1, "distinct_nontrivial": 2, "rule": RULE}, ASSUME, _time.time() - t0, 1)
        return 1
    cases = build_cases(tier)

    def mc(cs, outs):
        st = set()
        for o in outs:
            for s in (o.get("stats") or {}).get("state_list", []):
                st.add(tuple(s))
        for o in outs:
            (o.get("stats") or {}).pop("state_list", None)
        return {
            "states": max(1, len(st)),
            "distinct_global_snapshots": sorted(st),
            "transitions": max(1, sum((o.get("stats") or {}).get("transitions", 0) for o in outs)),
            "traces_validated_against_impl": sum((o.get("stats") or {}).get("evaluations", 0) for o in outs),
            "histories_inconclusive_constexpr_timeout": sum((o.get("stats") or {}).get("inconclusive", 0) for o in outs),
            "requests": {n: (s if isinstance(s, str) else s[""])[:80] for n, (s, o) in _R.items()},
            "fresh_process_oracle_runs": 3 * len(_R),
            "requests_without_oracle_constexpr_timeout": sorted(n for n, v in _ORACLE.items() if v == "INCONCLUSIVE"),
        }

    return common.enum_check(PROP, tier, cases, run_case, LEVEL, RULE, ASSUME, propose_only=propose, mc_keys=mc, det_n=0, do_warmup=False, exhaustive=True)


def replay(path):
    global _R, _ORACLE
    d = json.load(open(path))
    _R = requests()
    _ORACLE = {n: fresh_oracle(n, s, o)[0] for n, (s, o) in _R.items()}
    out = run_case(d["case"])
    print(json.dumps({"key": out["key"], "symptom": out.get("symptom"), "recorded_symptom": d.get("symptom")}, indent=1))
    if out.get("detail"):
        for k, v in out["detail"].items():
            print(f"{k}: {str(v)[:2000]}")
    return 1 if out.get("symptom") else 0
