"""C08 Compact output means the same as verbose output (DESIGN 4, C08)."""
import itertools
import json

from .. import comp, corpus, tables
from ..ic10 import ISA, KIND_ENUM, REGS, DEVS, HASHv, STRv, bare_names, enums, parse_literal, tokenize
from . import common

PROP = "C08"
LEVEL = "exploration"
RULE = (
    "X-ENUM, complete over: every member of all 27 enums as a plain value operand ('db.Setting = E.M'); every LogicType member in its "
    "typed position through a generic device read, write and batch read; every LogicSlotType member through a slot of a structure "
    "that exposes it (single and batch); the four batch methods in both spellings; every string over the alphabet {a, Z, 0, space, "
    "_, ., -, e-acute, ), (, double quote} of length 0..3 (quick) / 0..4 (thorough) as HASH argument, named-batch name, Devices() prefab name and as a hash held in a variable that names a batch; every "
    "ASCII string of length 1..6 over 3 characters and 40 longer display strings (7..13 characters) as STR argument; integer literals around the format_int boundaries written in "
    "decimal and hex; plus every program of DEV, FUNC, LIST, LIB and the repository's own programs x {inline, remove_labels} vectors.  "
    "Each source is compiled with compact off and on (other options equal); both outputs are tokenised by the harness and every "
    "token is evaluated with the harness's own CRC-32, byte packing, literal parser and the enum tables, using the operand kind of "
    "its position (instruction table) for bare names: the two value sequences must be identical, and a bare name in a plain value "
    "position must denote a single number.  distinct_nontrivial = compilation pairs in which at least one token differed textually."
)
RULE += (
    ' STRINGS also holds 15 names whose CRC-32 is 0x80000000, 0x7fffffff, 0xffffffff, 0 or 0x80000001 (sign-conversion boundaries).'
)
ASSUME = ["a bare name in a plain value position that names a LogicType member is read by the chip as that LogicType number (logic types are looked up first); bare names that are ambiguous among the other enums only are reported", "enum name -> number tables are the repository's own (C16 checks their internal consistency)", "position kinds come from the harness instruction table (vp/ic10.py ISA)"]

CRC_BOUNDARY_NAMES = ['Tank a9Kf9n', 'Tank HmMlyF', 'sixdIG', 'Tank l1VejG', 'Tank vgLkOu', 'N3Na94', 'Tank zMEbtY', 'Tank 2xkcg7', 'kMAbB0', 'Tank hZ3bu0', 'Tank cQpbSD', 'yZ7bCY', 'Tank zq2byd', 'Tank i10bJs', 'GlAexW']
assert sorted({__import__("zlib").crc32(n.encode()) for n in CRC_BOUNDARY_NAMES}) == [0x0, 0x7FFFFFFF, 0x80000000, 0x80000001, 0xFFFFFFFF]
SIGMA = ["a", "Z", "0", " ", "_", ".", "-", "é", ")", "(", '"']


def token_value(tok, kind, labels):
    """-> ('num', x) | ('sym', text) | ('amb', name, candidates)"""
    if tok in REGS or tok in DEVS or tok in labels:
        return ("sym", tok)
    v = parse_literal(tok)
    if v is not None:
        return ("num", float(v))
    if tok.startswith('HASH("') and tok.endswith('")'):
        return ("num", float(HASHv(tok[6:-2])))
    if tok.startswith('STR("') and tok.endswith('")'):
        return ("num", float(STRv(tok[5:-2])))
    if "." in tok:
        a, _, b = tok.partition(".")
        E = enums()
        if a in E and b in E[a].__members__:
            return ("num", float(E[a][b]))
    B = bare_names()
    if tok in B:
        d = B[tok]
        en = KIND_ENUM.get(kind)
        if en:
            if en in d:
                return ("num", float(d[en]))
            return ("sym", tok)
        vals = sorted(set(d.values()))
        if len(vals) == 1:
            return ("num", float(vals[0]))
        if "LogicType" in d:
            # assumption (stated in the evidence): the chip resolves a bare name in a value position as a LogicType first
            return ("num", float(d["LogicType"]))
        return ("amb", tok, d)
    return ("sym", tok)


def normalise(text):
    lines = [tokenize(l)[0] for l in text.split("\n")]
    lines = [t for t in lines if t]
    labels = {t[0][:-1] for t in lines if len(t) == 1 and t[0].endswith(":")}
    out = []
    for t in lines:
        if len(t) == 1 and t[0].endswith(":"):
            out.append([("sym", t[0])])
            continue
        kinds = ISA.get(t[0], ())
        row = [("sym", t[0])]
        for j, x in enumerate(t[1:]):
            k = kinds[j] if j < len(kinds) else "v"
            row.append(token_value(x, k, labels))
        out.append(row)
    return out


def compare(verbose, compact):
    """None or (symptom, description)."""
    A, B = normalise(verbose), normalise(compact)
    if len(A) != len(B):
        return ("line-count", f"verbose has {len(A)} lines, compact has {len(B)}")
    for i, (ra, rb) in enumerate(zip(A, B)):
        if len(ra) != len(rb):
            return ("operand-count", f"line {i}: {ra} vs {rb}")
        for a, b in zip(ra, rb):
            for side, x in (("verbose", a), ("compact", b)):
                if x[0] == "amb":
                    return ("ambiguous-bare-name", f"line {i} ({side}): bare name {x[1]!r} in a plain value position names different numbers: {x[2]}")
            if a != b:
                return ("token-value", f"line {i}: verbose token evaluates to {a}, compact token to {b}")
    return None


def run_case(case):
    out = {"key": case["key"], "family": case["family"], "symptom": None, "detail": None}
    n = nt = rej = 0
    for prog in case["programs"]:
        inp = dict(prog["modules"], **{"": prog["src"]}) if prog.get("modules") else prog["src"]
        for v in case["vectors"]:
            r1 = comp.compile_code(inp, comp.CompileOptions(**comp.opts(**dict(v, compact=False))))
            r2 = comp.compile_code(inp, comp.CompileOptions(**comp.opts(**dict(v, compact=True))))
            n += 1
            if comp.is_timeout(r1) or comp.is_timeout(r2):
                rej += 1  # constexpr helper timed out under load even after retries: inconclusive, never a verdict
                continue
            if ("code" in r1) != ("code" in r2):
                if out["symptom"] is None:
                    out["symptom"] = "one-mode-rejected"
                    out["detail"] = {"variant": v, "source": prog["src"], "description": str((r1.get("error") or r2.get("error")).get("description"))[:300]}
                continue
            if "code" not in r1:
                rej += 1
                continue
            if r1["code"] != r2["code"]:
                nt += 1
            bad = compare(r1["code"], r2["code"])
            if bad and out["symptom"] is None:
                out["symptom"] = bad[0]
                out["detail"] = {"variant": v, "description": bad[1], "source": prog["src"][:3000], "modules": prog.get("modules"), "verbose": r1["code"][:3000], "compact": r2["code"][:3000]}
    out["stats"] = {"evaluations": n, "nontrivial": nt, "rejected": rej}
    out["sample"] = {"source": case["programs"][0]["src"][:300]}
    return out


def prog(src):
    return {"src": src, "modules": None}


def ambiguous_names():
    B = bare_names()
    return {n for n, d in B.items() if len(set(d.values())) > 1}


def build_cases(tier):
    cases = []
    E = tables.all_enums()
    amb = ambiguous_names()
    base = [{}]
    # (1) every enum member as a plain value
    for en, e in sorted(E.items()):
        members = list(e.__members__)
        plain = [m for m in members if not (en in ("LogicSlotType", "LogicBatchMethod", "LogicReagentMode") and m in amb)]
        wit = [m for m in members if m not in plain]
        for fam, ms in (("ENUMVAL", plain), ("W-F08a", wit)):
            for j in range(0, len(ms), 30):
                chunk = ms[j : j + 30]
                src = "".join(f"db.Setting = {en}.{m}\n" for m in chunk)
                cases.append({"family": fam, "programs": [prog(src)], "vectors": base, "key": common.hkey("EV", en, chunk)})
    # (2) typed positions
    lts = list(E["LogicType"].__members__)
    for j in range(0, len(lts), 25):
        chunk = lts[j : j + 25]
        src = "".join(f"db.Setting = d0.{m}\nd1.{m} = 2\ndb.On = Devices(5).{m}.Sum\nDevices(HASH(\"x\"), \"n\").{m} = 1\n" for m in chunk)
        cases.append({"family": "LOGICTYPE", "programs": [prog(src)], "vectors": base, "key": common.hkey("LT", chunk)})
    sing, plur, inst = tables.structures()
    _, _, ty, _ = tables.modules()
    pl = {}
    for pn, cls in plur.items():
        for gname, o in inst.get(pn, []):
            pl.setdefault(cls._prefab_name, gname)
    seen_st = {}
    for sname, cls in sorted(sing.items()):
        try:
            obj = cls("d0")
        except Exception:  # noqa: BLE001
            continue
        for pn in tables.props(cls):
            try:
                v = getattr(obj, pn)
            except Exception:  # noqa: BLE001
                continue
            if isinstance(v, ty._BaseSlotType):
                for sp in tables.props(type(v)):
                    if (type(v).__name__, sp) not in seen_st and isinstance(getattr(v, sp, None), ty._DeviceSlotType):
                        seen_st[(type(v).__name__, sp)] = (sname, pn, pl.get(cls._prefab_name))
    items = sorted(seen_st.items())
    for j in range(0, len(items), 25):
        chunk = items[j : j + 25]
        src = "".join(f"db.Setting = {s}(d0).{pn}.{sp}\n{s}(d1).{pn}.{sp} = 1\n" + (f"db.On = {g}.{pn}.{sp}.Maximum\n" if g else "") for (_, sp), (s, pn, g) in chunk)
        cases.append({"family": "SLOTTYPE", "programs": [prog(src)], "vectors": base, "key": common.hkey("ST", [c[0] for c in chunk])})
    bm = "".join(f"db.Setting = Batteries.{m}.Charge\ndb.On = Batteries.Charge.{m}\ndb.Mode = Batteries[\"x\"].{m}.Charge\ndb.Lock = ArcFurnaces.slot0.Quantity.{m}\n" for m in ("Average", "Sum", "Minimum", "Maximum"))
    cases.append({"family": "BATCHMODE", "programs": [prog(bm)], "vectors": base, "key": common.hkey("BM")})
    # (3) strings
    L = 3 if tier == "quick" else 4
    strs = [""]
    for ln in range(1, L + 1):
        strs += ["".join(t) for t in itertools.product(SIGMA, repeat=ln)]
    # longer names with leading / trailing / inner blanks (long enough for compact mode to print the number)
    strs += [" Bank", "Bank ", " Display Row ", "  two  ", "Row 1 ", " x", "x ", "\tTab", "Tab\t", "a  b  c", "     ", " (1) ", "Name With Blank ", " é "]
    # names whose CRC-32 sits on a boundary of the signed / unsigned conversion: 0x80000000, 0x7fffffff, 0xffffffff, 0, 0x80000001
    # (found once by a meet-in-the-middle search; checked here against zlib)
    strs += CRC_BOUNDARY_NAMES
    strs = [s for s in strs if s != "" and '")' not in s]  # a name containing '")' cannot be written inside HASH("...") in IC10 itself
    for j in range(0, len(strs), 40):
        chunk = strs[j : j + 40]
        src = ""
        for si, s in enumerate(chunk):
            q = json.dumps(s, ensure_ascii=False)
            src += f"db.Setting = HASH({q})\ndb.On = Batteries[{q}].Charge.Sum\nGrowLights[{q}].On = 1\ndb.Mode = Devices({q}).Charge.Average\nDevices(HASH({q}), {q}).On = 0\n"
            # compile-time folding over the hash constant (verbose folds the token, compact the number)
            if not (s.startswith('"') and s.endswith('"')):  # quoted names: finding F-08b, witness family below
                src += f"db.Setting = HASH({q}) + 1\ndb.On = HASH({q}) & 65535\ndb.Mode = 0 - HASH({q})\n"
            # the hash kept in a variable and used as a device name (passes through the hash formatter a second time)
            # (single-assignment variable: the constant is propagated; a reassigned variable: it lives in a register)
            src += f"hv{si} = HASH({q})\nGrowLights[hv{si}].On = 2\ndb.Lock = Batteries[hv{si}].Charge.Maximum\nhw = HASH({q})\nGrowLights[hw].On = 3\n"
        cases.append({"family": "STRINGS", "programs": [prog(src)], "vectors": base, "key": common.hkey("S", chunk)})
    # F-08b: folding over the hash of a name that starts and ends with a double quote
    for s in [x for x in strs if x.startswith('"') and x.endswith('"')]:
        q = json.dumps(s, ensure_ascii=False)
        cases.append({"family": "W-F08b", "programs": [prog(f"db.Setting = HASH({q}) + 1\ndb.On = HASH({q}) & 65535\n")], "vectors": base, "key": common.hkey("F08b", s)})
    st = []
    for ln in range(1, 7):
        st += ["".join(t) for t in itertools.product("aZ ", repeat=ln)]
    # longer display strings (more than the 6 characters a number can hold exactly: they must stay symbolic or keep their value)
    words = ["Pressure", "Temperature", "Main Battery", "Setting", "ABCDEFG", "zzzzzzzz", "        ", "A1b2C3d4E5", "Hello World!", "0123456789012"]
    for w in words:
        for n in range(7, len(w) + 1):
            st.append(w[:n])
    for j in range(0, len(st), 60):
        chunk = st[j : j + 60]
        src = "".join(f"db.Setting = STR({json.dumps(s)})\n" for s in chunk)
        cases.append({"family": "STR", "programs": [prog(src)], "vectors": base, "key": common.hkey("STR", chunk)})
    ints = [0, 1, 9999, 10000, 10001, 65535, 65536, 99999, 2 ** 31 - 1, 2 ** 31, 2 ** 32 - 1, 2 ** 32, 2 ** 53 - 1, -1, -9999, -10001, -2 ** 31, 255, 4096]
    src = "".join(f"db.Setting = {i}\ndb.On = {hex(i) if i >= 0 else i}\n" for i in ints) + "".join(f"db.Mode = {c._hash}\n" for c in list(sing.values())[:40])
    cases.append({"family": "INTS", "programs": [prog(src)], "vectors": base, "key": common.hkey("INTS")})
    # (4) programs
    P = [p for p in corpus.programs(tier) if p["family"] in ("DEV", "FUNC", "FUNC2", "LIST", "LIB", "REPO", "REPO-LIB", "TERM")]
    if tier == "quick":
        P = [p for i, p in enumerate(P) if p["family"] in ("DEV", "REPO", "REPO-LIB") or i % 3 == 0]
    vs = [dict(zip(("inline_functions", "remove_labels"), v)) for v in itertools.product([True, False], repeat=2)]
    for j in range(0, len(P), 12):
        chunk = P[j : j + 12]
        cases.append({"family": "PROGRAMS", "programs": chunk, "vectors": vs, "key": common.hkey("P", [c["src"] for c in chunk])})
    return cases


def run(tier, propose=False):
    cases = build_cases(tier)
    extra = lambda cs, outs: {"compilation_pairs": sum((o.get("stats") or {}).get("evaluations", 0) for o in outs), "pairs_rejected_in_both_modes": sum((o.get("stats") or {}).get("rejected", 0) for o in outs), "names_that_are_ambiguous_as_bare_values": sorted(ambiguous_names())}
    return common.enum_check(PROP, tier, cases, run_case, LEVEL, RULE, ASSUME, propose_only=propose, extra_cov=extra, nontrivial=lambda o: (o.get("stats") or {}).get("nontrivial", 0))


def replay(path):
    return common.replay_generic(path, run_case)
