"""C12 constexpr calls are replaced by exactly what the function returns (DESIGN 4, C12)."""
import json

from .. import comp, xcase
from ..ic10 import HASHv, enums
from . import common

PROP = "C12"
LEVEL = "exploration"
RULE = (
    "X-ENUM: 14 constexpr bodies (arithmetic, HASH of quoted / wrapped / empty strings, big integers, negative / tiny floats, unicode strings, branch on argument, keyword default, string -> HASH, enum arithmetic, one constexpr calling "
    "another, float / bool result, list result indexed at the call site, shift-or packing) x argument tuples x 11 call positions (main "
    "statement, inside an expression, argument of a call, if test, range bound, function body inlined / out of line, library function called from the main file, from a function of the same library, and two libraries that both define constexpr functions beside one in the main file, in both import orders) "
    "-- quick: every (body, position) pair with 1 argument tuple; thorough: 4 argument tuples each.  Oracle: the harness executes the "
    "same function source in a clean namespace of its own (HASH = bitwise signed CRC-32, the repository's enum classes) and builds "
    "the twin program in which the decorated function is deleted and the call is replaced by that literal; the real compiler's output "
    "for the constexpr program must equal the twin's output token for token (so the call became exactly that literal and the function "
    "contributed no instruction).  Rejection set: open / eval / exec as call, attribute, bare name, inside a nested function, inside a "
    "string, in main file and library -> must yield an error verdict.  Each evaluation spawns the compiler's helper process; a helper "
    "timeout under load is retried and otherwise counted inconclusive.  distinct_nontrivial = (body, args, position) triples judged."
)
ASSUME = ["ordinary Python evaluation = CPython exec of the function source by the harness", "constexpr helper timeouts (1 s limit, load dependent) are retried up to 4 times, then counted inconclusive"]

BODIES = {
    "arith": ("def cx(a, b):\n    return a * 7 + b - 3\n", [(2, 5), (0, 0), (-4, 10), (100, 1)]),
    "branch": ("def cx(a, b):\n    if a > b:\n        return a - b\n    elif a == b:\n        return 42\n    return b * 2\n", [(5, 2), (3, 3), (1, 9), (0, -1)]),
    "default": ("def cx(a, b=10):\n    return a + b * 2\n", [(1,), (1, 2), (7,), (0, 0)]),
    "strhash": ("def cx(nm, n):\n    return HASH(nm + str(n))\n", [("Lamp", 1), ("Lamp", 2), ("", 0), ("Bank é", 12)]),
    "enum": ("def cx(a, b):\n    return int(LogicType.Pressure) * a + int(Color.Red) + b\n", [(1, 0), (2, 3), (0, 0), (10, -4)]),
    "nested": ("def helper(v):\n    return v * v + 1\n@constexpr\ndef cx(a, b):\n    return helper(a) + helper(b)\n", [(1, 2), (0, 0), (3, -3), (10, 5)]),
    "floatbool": ("def cx(a, b):\n    if b:\n        return a / 8\n    return a > 3\n", [(1, 1), (5, 0), (2, 0), (7, 2)]),
    "pack": ("def cx(a, b):\n    v = 0\n    for i in range(a):\n        v = (v << 8) | (b + i)\n    return v\n", [(2, 65), (3, 1), (0, 9), (4, 200)]),
    "rawhash": ("def cx(nm, n):\n    return HASH(nm) + n\n", [('"abc"', 1), ('HASH("abc")', 2), ("plain name", 3), (' padded ', 4)]),
    "emptyhash": ("def cx(nm, n):\n    return HASH(nm * n)\n", [("ab", 0), ("ab", 1), ('"', 2), ("", 3)]),
    "bigint": ("def cx(a, b):\n    return a ** b + 1\n", [(3, 40), (2, 60), (7, 1), (10, 18)]),
    "negfloat": ("def cx(a, b):\n    return -a / 3 + b * 1e-7\n", [(1, 1), (10, 0), (0, 5), (7, -2)]),
    "unicode": ("def cx(nm, n):\n    return HASH('Tür ' + nm * n) % 1000\n", [("é", 1), ("Lampe", 2), ("", 3), ("€", 4)]),
    # an expression evaluated when the 'def' runs (a default value) that uses a constexpr function defined earlier in the module, and one
    # that uses an earlier constexpr function named like a Python builtin: the helper script must define the functions in source order
    "defarg": ("def head(k):\n    return k * 256\n@constexpr\ndef cx(a, b=head(3)):\n    return a + b\n", [(5,), (5, 1), (0,), (2, 2)]),
    "shadow": ("def ord(ch):\n    return 7\n@constexpr\ndef cx(a, b=ord('A')):\n    return a * 256 + b\n", [(5,), (5, 1), (0,), (2, 2)]),
    "list": ("def cx(a, b):\n    return [a, b, a + b, a * b]\n", [(2, 3), (0, 1), (5, 5), (-1, 4)]),
}


def call_text(body, args):
    t = "cx(" + ", ".join(repr(a) for a in args) + ")"
    return t + "[2]" if body == "list" else t


def harness_value(body, args):
    src = BODIES[body][0]
    ns = {"HASH": lambda s: HASHv(s), "constexpr": lambda f: f}
    ns.update(enums())
    exec(src if body != "nested" else src, ns)  # the harness's own evaluation of the same function source
    v = ns["cx"](*args)
    return v[2] if body == "list" else v


def lit(v):
    if isinstance(v, bool):
        return "1" if v else "0"
    if isinstance(v, float):
        return repr(v)
    if isinstance(v, int) and v < 0:
        return f"({v})"
    return repr(v)


POSITIONS = {
    "stmt": "db.Setting = {C}\n",
    "expr": "x = d0.Setting\ndb.Setting = {C} * 2 + x\n",
    "callarg": "def show(v, w):\n    db.Setting = v\n    db.On = w\nwhile True:\n    show({C}, d0.Setting)\n    show(1, {C})\n    yield_()\n",
    "iftest": "if {C} > 10:\n    db.Setting = 1\nelse:\n    db.Setting = 2\n",
    "range": "for i in range({C} % 4):\n    db.On = i\ndb.Setting = 5\n",
    "funcbody": "def work(p):\n    db.Setting = p + {C}\nwhile True:\n    work(d0.Setting)\n    work(3)\n    yield_()\n",
    "funcinl": "def work(p):\n    db.Setting = p + {C}\nwhile True:\n    work(d0.Setting)\n    yield_()\n",
}


def build_program(body, args, pos):
    """-> (source with constexpr, twin source with the literal, modules or None, twin modules or None)"""
    fsrc = BODIES[body][0]
    deco = "@constexpr\n" + fsrc
    C = call_text(body, args)
    L = lit(harness_value(body, args))
    if pos == "library":
        # constexpr function defined in a library module, called from the main file
        lib = deco + "def use(p):\n    db.Setting = p + 1\n"
        twin_lib = "def use(p):\n    db.Setting = p + 1\n"
        main = "from library import lib\nwhile True:\n    lib.use(d0.Setting)\n    lib.use(2)\n    db.On = lib." + C + "\n    yield_()\n"
        twin_main = "from library import lib\nwhile True:\n    lib.use(d0.Setting)\n    lib.use(2)\n    db.On = " + L + "\n    yield_()\n"
        return main, twin_main, {"lib": lib}, {"lib": twin_lib}
    if pos in ("library2a", "library2b"):
        # two library modules that both define constexpr functions, plus one in the main file; both import orders
        lib = deco + "def use(p):\n    db.Setting = p + 1\n"
        twin_lib = "def use(p):\n    db.Setting = p + 1\n"
        aux = "@constexpr\ndef other(a):\n    return a * 3 + 1\ndef use2(p):\n    db.On = p\n"
        twin_aux = "def use2(p):\n    db.On = p\n"
        imports = "from library import lib\nfrom library import aux\n" if pos == "library2a" else "from library import aux\nfrom library import lib\n"
        loop = "while True:\n    lib.use(d0.Setting)\n    lib.use(2)\n    aux.use2(1)\n    aux.use2(d1.Setting)\n    db.On = {A}\n    db.Mode = {B}\n    db.Lock = {D}\n    yield_()\n"
        main = imports + "@constexpr\ndef local(a):\n    return a + 7\n" + loop.format(A="lib." + C, B="aux.other(4)", D="local(5)")
        twin_main = imports + loop.format(A=L, B="13", D="12")
        return main, twin_main, {"lib": lib, "aux": aux}, {"lib": twin_lib, "aux": twin_aux}
    if pos == "libbody":
        # ... and called from a function of the same library module (finding F-12b)
        lib = deco + "def use(p):\n    db.Setting = p + " + C + "\n"
        twin_lib = "def use(p):\n    db.Setting = p + " + L + "\n"
        main = "from library import lib\nwhile True:\n    lib.use(d0.Setting)\n    lib.use(2)\n    yield_()\n"
        return main, main, {"lib": lib}, {"lib": twin_lib}
    t = POSITIONS[pos]
    return deco + t.format(C=C), t.format(C=L), None, None


def run_case(case):
    out = {"key": case["key"], "family": case["family"], "symptom": None, "detail": None}
    n = nt = inconclusive = 0
    for it in case["items"]:
        n += 1
        if it["kind"] == "reject":
            inp = dict(it["modules"], **{"": it["src"]}) if it.get("modules") else it["src"]
            r = comp.compile_code(inp, comp.CompileOptions(**comp.opts()))
            nt += 1
            if "error" not in r and out["symptom"] is None:
                out["symptom"] = "forbidden-constexpr-accepted"
                out["detail"] = {"source": it["src"], "modules": it.get("modules"), "code": r.get("code", "")[:500]}
            continue
        body, args, pos = it["body"], tuple(it["args"]), it["pos"]
        src, twin, mods, tmods = build_program(body, args, pos)
        for v in it["variants"]:
            o = comp.CompileOptions(**comp.opts(**v))
            r1 = comp.compile_code(dict(mods, **{"": src}) if mods else src, o)
            if comp.is_timeout(r1):
                inconclusive += 1
                continue
            r2 = comp.compile_code(dict(tmods, **{"": twin}) if tmods else twin, o)
            nt += 1
            bad = None
            if ("code" in r1) != ("code" in r2):
                bad = ("constexpr-vs-literal:verdict", str((r1.get("error") or r2.get("error")).get("description"))[:400])
            elif "code" in r1 and xcase.normalize(r1["code"]) != xcase.normalize(r2["code"]):
                bad = ("constexpr-vs-literal:code", "the program with the constexpr call and the twin with the literal compile to different instruction sequences")
            if bad and out["symptom"] is None:
                out["symptom"] = bad[0]
                out["detail"] = {"description": bad[1], "variant": v, "body": body, "args": list(args), "position": pos, "harness_value": repr(harness_value(body, args)), "source": src, "modules": mods, "twin": twin, "code": r1.get("code"), "twin_code": r2.get("code")}
    out["stats"] = {"evaluations": n, "nontrivial": nt, "inconclusive": inconclusive}
    it = case["items"][0]
    out["sample"] = {"item": {k: it[k] for k in it if k in ("body", "args", "pos", "kind")}, "source": (build_program(it["body"], tuple(it["args"]), it["pos"])[0] if it["kind"] == "eval" else it["src"])[:400]}
    return out


FORBIDDEN = [
    "@constexpr\ndef cx(a):\n    f = open('/etc/passwd')\n    return a\ndb.Setting = cx(1)\n",
    "@constexpr\ndef cx(a):\n    return eval('a + 1')\ndb.Setting = cx(1)\n",
    "@constexpr\ndef cx(a):\n    exec('a = 2')\n    return a\ndb.Setting = cx(1)\n",
    "@constexpr\ndef cx(a):\n    import os\n    os.open('/tmp/x', 0)\n    return a\ndb.Setting = cx(1)\n",
    "@constexpr\ndef cx(a):\n    g = eval\n    return a\ndb.Setting = cx(1)\n",
    "@constexpr\ndef cx(a):\n    def inner():\n        exec('pass')\n    return a\ndb.Setting = cx(1)\n",
    "@constexpr\ndef cx(a):\n    return len('please open the door') + a\ndb.Setting = cx(1)\n",
    "@constexpr\ndef cx(a, open=3):\n    return a\ndb.Setting = cx(1)\n",
    "@emit_code\ndef cx(a):\n    return eval('1')\ndb.Setting = cx(1)\n",
]


def build_cases(tier):
    cases = []
    pos_all = list(POSITIONS) + ["library", "libbody", "library2a", "library2b"]
    k = 0
    for body, (_, argsets) in BODIES.items():
        for pi, pos in enumerate(pos_all):
            sets = argsets if tier == "thorough" else [argsets[(pi + k) % len(argsets)]]
            items = []
            for args in sets:
                vs = [{}, {"inline_functions": False}] if pos in ("callarg", "funcbody", "library", "libbody", "library2a", "library2b") else [{}]
                if tier == "thorough":
                    vs = vs + [{"compact": True, "remove_labels": True}]
                items.append({"kind": "eval", "body": body, "args": list(args), "pos": pos, "variants": vs})
            cases.append({"family": "W-F12b" if (pos == "libbody" or (pos.startswith("library") and body == "nested")) else "EVAL", "items": items, "key": common.hkey("E", body, pos, sets, tier)})
        k += 1
    rej = [{"kind": "reject", "src": s} for s in FORBIDDEN]
    rej.append({"kind": "reject", "src": "from library import lib\ndb.Setting = lib.cx(2)\n", "modules": {"lib": "@constexpr\ndef cx(a):\n    return eval('a')\n"}})
    for j in range(0, len(rej), 5):
        cases.append({"family": "REJECT", "items": rej[j : j + 5], "key": common.hkey("R", j, [r["src"] for r in rej[j : j + 5]])})
    return cases


def run(tier, propose=False):
    cases = build_cases(tier)
    extra = lambda cs, outs: {"helper_timeouts_inconclusive": sum((o.get("stats") or {}).get("inconclusive", 0) for o in outs)}
    return common.enum_check(PROP, tier, cases, run_case, LEVEL, RULE, ASSUME, propose_only=propose, extra_cov=extra, nworkers=4, det_n=2, nontrivial=lambda o: (o.get("stats") or {}).get("nontrivial", 0), exhaustive=True)


def replay(path):
    return common.replay_generic(path, run_case)
