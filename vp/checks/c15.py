"""C15 In-source directives set exactly the named options (DESIGN 4, C15)."""
import itertools

from .. import comp
from . import common

PROP = "C15"
LEVEL = "exploration"
RULE = (
    "X-ENUM, complete: every assignment of {absent, on, off} to the 8 options (3^8 = 6561) x spelling {'-', '_'} x layout {all tags on "
    "one directive line, one line per tag} x caller base vector {all defaults, all flipped} (quick: the 2 base vectors alternate over "
    "the assignments; thorough: full product), plus the placement set: directive after code on the same line, inside a string on a "
    "code line, indented comment line inside a function body, no space after '#', text before 'pytrapic:', several lines naming the "
    "same option (last wins, 3 orders), unknown / dunder / upper-case names mixed with known ones, empty tags, directive lines in a "
    "library module only (no effect).  Oracle: compile_code(source with directives, base) must equal -- as whole result dictionaries "
    "-- compile_code(the same source with the marker word neutralised, base (+) directives), where (+) is computed by the harness from "
    "the property text (never by the scanner under test).  The probe program is sensitive to all 8 options (checked: flipping any "
    "single option changes its result).  distinct_nontrivial = cases whose directives changed at least one option relative to base."
)
ASSUME = ["the probe program's result differs for any two option vectors that differ in one option (measured per run, reported as vacuity guard)"]

NAMES = comp.OPTION_NAMES
PROG = (
    "def show(v):\n    db.Setting = v\n    db.On = v + 1\n"
    "def work(a):\n    t = a + HASH(\"Bank\")\n    show(t)\n"
    "def once(z):\n    db.Mode = z\n"
    "while True:\n    work(d0.Setting)\n    work(2)\n    show(3)\n    once(4)\n    yield_()\n"
)
LIBPROG = "def lf(k):\n    db.Lock = k + HASH(\"Lib\")\n"


def apply(base, assign):
    o = dict(base)
    for k, v in assign:
        o[k] = v
    return o


def tag(name, val, dash):
    n = name.replace("_", "-") if dash else name
    return n if val else ("no-" if dash else "no_") + n


def neutral(src):
    return src.replace("pytrapic:", "pytrapik:")


def run_case(case):
    out = {"key": case["key"], "family": case["family"], "symptom": None, "detail": None}
    n = nt = 0
    for item in case["items"]:
        src_with, base, expected = item["src"], item["base"], item["expected"]
        mods = item.get("modules")
        w = dict(mods, **{"": src_with}) if mods else src_with
        wo = dict({k: neutral(v) for k, v in mods.items()}, **{"": neutral(src_with)}) if mods else neutral(src_with)
        r1 = comp.compile_code(w, comp.CompileOptions(**base))
        r2 = comp.compile_code(wo, comp.CompileOptions(**expected))
        n += 1
        if expected != base:
            nt += 1
        a = dict(r1)
        if "code" in a:
            a["code"] = neutral(a["code"])
        if a != r2 and out["symptom"] is None:
            # which options would explain the observed result?  (diagnostic only)
            out["symptom"] = "directive-result-differs"
            out["detail"] = {"source": src_with, "modules": mods, "base": base, "expected_options": expected, "with_directives": str(r1)[:1500], "via_api": str(r2)[:1500]}
    out["stats"] = {"evaluations": n, "nontrivial": nt}
    out["sample"] = {"source_head": case["items"][0]["src"][:200], "base": case["items"][0]["base"], "expected": case["items"][0]["expected"]}
    return out


def sensitivity():
    """Vacuity guard: every single-option flip changes the probe's result (from both base vectors)."""
    bad = []
    for base in (dict(comp.DEFAULTS), {k: not v for k, v in comp.DEFAULTS.items()}):
        r0 = comp.compile_code(PROG, comp.CompileOptions(**base))
        for k in NAMES:
            o = dict(base)
            o[k] = not o[k]
            if comp.compile_code(PROG, comp.CompileOptions(**o)) == r0:
                bad.append((k, "from " + ("defaults" if base == comp.DEFAULTS else "flipped")))
    return bad


def build_cases(tier):
    cases = []
    defaults = dict(comp.DEFAULTS)
    flipped = {k: not v for k, v in defaults.items()}
    items = []
    idx = 0
    for assign in itertools.product((None, True, False), repeat=8):
        named = [(k, v) for k, v in zip(NAMES, assign) if v is not None]
        bases = [defaults, flipped] if tier == "thorough" else [defaults if idx % 2 == 0 else flipped]
        idx += 1
        for base in bases:
            for dash in (False, True):
                for layout in ("one", "many"):
                    if tier == "quick" and ((idx + dash + (layout == "many")) % 2):
                        continue
                    tags = [tag(k, v, dash) for k, v in named]
                    if layout == "one":
                        head = "# pytrapic: " + ", ".join(tags) + "\n" if tags else "# pytrapic:\n"
                    else:
                        head = "".join(f"# pytrapic: {t}\n" for t in tags)
                    items.append({"src": head + PROG, "base": dict(base), "expected": apply(base, named)})
    for j in range(0, len(items), 150):
        chunk = items[j : j + 150]
        cases.append({"family": "PRODUCT", "items": chunk, "key": common.hkey("P", tier, j)})
    # placement set
    P = []

    def add(src, named, modules=None, bases=(defaults, flipped)):
        for base in bases:
            P.append({"src": src, "base": dict(base), "expected": apply(base, named), "modules": modules})

    add("x = 1  # pytrapic: compact, no-inline-functions\n" + PROG, [])
    add('s = "# pytrapic: compact"\n' + PROG, [])
    add("y = 2 # pytrapic: no_append_version\n# pytrapic: remove_labels\n" + PROG, [("remove_labels", True)])
    add(PROG.replace("def work(a):\n", "def work(a):\n    # pytrapic: compact, no-inline-functions\n"), [("compact", True), ("inline_functions", False)])
    add("#pytrapic:compact,no_inline_functions\n" + PROG, [("compact", True), ("inline_functions", False)])
    add("   \t # pytrapic:   compact  ,   no-remove-labels  \n" + PROG, [("compact", True), ("remove_labels", False)])
    add("# options for pytrapic: compact, remove-labels\n" + PROG, [("compact", True), ("remove_labels", True)])
    add(PROG + "# pytrapic: compact\n", [("compact", True)])
    add(PROG.replace("while True:\n", "# pytrapic: no-inline-functions\nwhile True:\n"), [("inline_functions", False)])
    for order in itertools.permutations([("compact", True), ("compact", False), ("remove_labels", True)]):
        last = {}
        for k, v in order:
            last[k] = v
        add("".join(f"# pytrapic: {tag(k, v, True)}\n" for k, v in order) + PROG, list(last.items()))
    add("# pytrapic: compact, no-compact\n" + PROG, [("compact", False)])
    add("# pytrapic: no-compact, compact\n" + PROG, [("compact", True)])
    add("# pytrapic: nosuch, compact, __class__, no-__doc__, Compact, COMPACT, no-nosuch, remove_labels\n" + PROG, [("compact", True), ("remove_labels", True)])
    add("# pytrapic: , ,compact,,\n" + PROG, [("compact", True)])
    add("# pytrapic: options, passes, _raise_exceptions, no-options\n" + PROG, [])
    add("# pytrapic: compact remove_labels\n" + PROG, [])  # one unknown tag 'compact remove_labels'
    add("# Pytrapic: compact\n# PYTRAPIC: compact\n# pytrapic : compact\n" + PROG, [])
    add("## pytrapic: use-push-pop-functions\n" + PROG, [("use_push_pop_functions", True)])
    add("# pytrapic: tail-call-optimization, use_push_pop_functions, no-inline_functions\n" + PROG, [("tail_call_optimization", True), ("use_push_pop_functions", True), ("inline_functions", False)])
    # library modules: directives there have no effect
    main_lib = "from library import lib\n" + PROG.replace("    once(4)\n", "    once(4)\n    lib.lf(5)\n    lib.lf(6)\n")
    add(main_lib, [], modules={"lib": "# pytrapic: compact, no-inline-functions, remove-labels\n" + LIBPROG})
    add("# pytrapic: remove-labels\n" + main_lib, [("remove_labels", True)], modules={"lib": "# pytrapic: compact\n" + LIBPROG})
    for j in range(0, len(P), 10):
        cases.append({"family": "PLACEMENT", "items": P[j : j + 10], "key": common.hkey("PL", j, [p["src"] for p in P[j : j + 10]])})
    return cases


def run(tier, propose=False):
    common.warmup()
    ins = sensitivity()
    cases = build_cases(tier)
    # generated_comments: no instruction of the pinned tree carries a generated comment (only the unreachable 'not implemented'
    # handler sets one), so that option is unobservable through compile_code; every other option must be observable
    inert = [i for i in ins if i[0] == "generated_comments"]
    extra = lambda cs, outs: {"probe_insensitive_to": ins, "options_unobservable_in_this_tree": sorted({i[0] for i in inert}), "vacuous": bool([i for i in ins if i not in inert])}
    return common.enum_check(PROP, tier, cases, run_case, LEVEL, RULE, ASSUME, propose_only=propose, extra_cov=extra, nontrivial=lambda o: (o.get("stats") or {}).get("nontrivial", 0), exhaustive=(tier == "thorough"))


def replay(path):
    return common.replay_generic(path, run_case)
