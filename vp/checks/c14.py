"""C14 The compile daemon answers every request with exactly one line (DESIGN 4, C14; X-SEQ)."""
import base64
import io
import itertools
import json
import os
import subprocess
import sys

from .. import comp
from . import common

PROP = "C14"
LEVEL = "model_checking"
RULE = (
    "X-SEQ on the real daemon code (mod_daemon.main / process_input) with an instrumented stdin and captured reply stream: every "
    "sequence of input lines of length <= 3 (quick) / <= 4 (thorough) over an alphabet of 19 line classes (incl. lines that merely begin with EXIT) (valid request; valid request of 100 kB on one line; valid with "
    "CRLF and extra keys; valid multi-module; invalid base64; base64 of non-UTF-8 bytes; base64 of non-JSON; JSON array; JSON "
    "scalar/null; unknown action; missing code; code of the wrong type; unknown option name / options null; source that drives the "
    "compiler into its internal-error path; source with a syntax error; well-formed requests whose echoed fields carry a lone surrogate; blank line; EXIT) is fed to a fresh run of main(); the "
    "instrumented stdin observes the reply stream before every readline, so the invariant is evaluated after EVERY step: the reply "
    "stream gained exactly one line iff the previous line was non-blank and the daemon had not exited; each reply is base64 of a "
    "JSON object; a valid request's reply carries the constant that was planted in that request (order); error classes answer with "
    "an 'error' member; nothing is written to the redirected stdout; main() returns at EXIT / EOF and never raises.  Conformance "
    "with the real process: every sequence of length <= 2 plus a fixed cover of longer ones (incl. a constexpr body that prints) is "
    "replayed against 'python -m stationeers_pytrapic.mod_daemon' over real pipes: its stdout bytes must equal the in-process "
    "capture, exit status 0.  states = distinct (reply count, exited, last reply kind) observations; transitions = input lines fed."
)
ASSUME = ["the C# client is not run; its contract (one WriteLine, one ReadLine per request, under a lock) is what the invariant encodes"]


def b64(obj):
    return base64.b64encode(json.dumps(obj).encode()).decode()


def make_line(cls, k):
    """line text (without the trailing newline unless part of the class) for class cls; k = position (planted constant)."""
    const = 1000 + k
    src = f"db.Setting = {const}\n"
    if cls == "valid":
        return b64({"action": "compile", "code": {"": src}, "options": {"append_version": False}})
    if cls == "valid-crlf-extra":
        return b64({"action": "compile", "code": {"": src}, "options": {"compact": True}, "lineno": 3, "column": 7}) + "\r"
    if cls == "valid-modules":
        return b64({"action": "compile", "code": {"": f"from library import m\nm.f({const})\nm.f(2)\n", "m": "def f(a):\n    db.Setting = a\n"}, "options": {}})
    if cls == "valid-huge":
        # one request line far longer than any buffer size (100 kB of source): still exactly one request
        big = src + "".join(f"# filler line {i} {'x' * 60}\n" for i in range(1400))
        return b64({"action": "compile", "code": {"": big}, "options": {"append_version": False}})
    if cls == "bad-base64":
        return "!!!not*base64!!!"
    if cls == "non-utf8":
        return base64.b64encode(b"\xff\xfe\x80abc").decode()
    if cls == "non-json":
        return base64.b64encode(b"this is not json {").decode()
    if cls == "json-array":
        return b64([1, 2, {"action": "compile"}])
    if cls == "json-scalar":
        return b64(None) if k % 2 else b64(42)
    if cls == "unknown-action":
        return b64({"action": "format", "code": {"": src}})
    if cls == "missing-code":
        return b64({"action": "compile", "options": {}})
    if cls == "code-wrong-type":
        return b64({"action": "compile", "code": 5 if k % 2 else [src]})
    if cls == "bad-options":
        return b64({"action": "compile", "code": {"": src}, "options": {"no_such_option": True}}) if k % 2 else b64({"action": "compile", "code": {"": src}, "options": None})
    if cls == "internal-error":
        return b64({"action": "compile", "code": {"": f"db.Setting = 1e999 + {const}\n"}, "options": {}})
    if cls == "syntax-error":
        return b64({"action": "compile", "code": {"": f"db.Setting = = {const}\n"}, "options": {}})
    if cls == "echo-surrogate":
        # well-formed ASCII JSON whose echoed fields contain a lone surrogate / odd unicode (the reply has to carry it)
        if k % 3 == 0:
            return b64({"action": "\ud800"})
        if k % 3 == 1:
            return b64({"action": "compile", "code": {"": src}, "options": {"\udc00": True}})
        return b64({"action": "compile", "code": {"": "db.Setting = '\ud83d' + \u00e9\n"}, "options": {}})
    if cls == "blank":
        return "" if k % 2 else "   \t"
    if cls == "constexpr-prints":
        return b64({"action": "compile", "code": {"": f"@constexpr\ndef cx(a):\n    print('hello from constexpr')\n    return a\ndb.Setting = cx({const})\n"}, "options": {}})
    if cls == "exit-lookalike":
        # not the shutdown command: a malformed request like any other (one error reply, the daemon keeps serving)
        return ["EXITAAAA", "EXIT0", "exit", "EXIT EXIT", "xEXIT"][k % 5]
    if cls == "EXIT":
        return "EXIT"
    raise KeyError(cls)


ALPHABET = ["valid", "valid-crlf-extra", "valid-modules", "valid-huge", "bad-base64", "non-utf8", "non-json", "json-array", "json-scalar", "unknown-action", "missing-code", "code-wrong-type", "bad-options", "internal-error", "syntax-error", "echo-surrogate", "exit-lookalike", "blank", "EXIT"]
VALID = {"valid", "valid-crlf-extra", "valid-modules", "valid-huge"}
COMPILES = VALID | {"internal-error", "syntax-error", "constexpr-prints"}

_daemon = None


def daemon():
    """Import the real module once per worker with a capture object standing in for the process's stdout."""
    global _daemon
    if _daemon is None:
        saved = sys.stdout
        sys.stdout = io.StringIO()
        try:
            import importlib

            _daemon = importlib.import_module("stationeers_pytrapic.mod_daemon")
        finally:
            sys.stdout = saved
    return _daemon


class Stdin:
    """stdin stand-in that records the length of the reply stream every time the daemon asks for the next line."""

    def __init__(self, lines, reply):
        self.lines = lines
        self.i = 0
        self.reply = reply
        self.marks = []

    def readline(self):
        self.marks.append(len(self.reply.getvalue()))
        if self.i >= len(self.lines):
            return ""
        l = self.lines[self.i]
        self.i += 1
        return l + "\n"


def run_history(classes):
    """-> (replies text, marks, redirected-stdout text, exception or None)"""
    import asyncio

    d = daemon()
    lines = [make_line(c, k) for k, c in enumerate(classes)]
    reply = io.StringIO()
    redirected = io.StringIO()
    stdin = Stdin(lines, reply)
    saved = (sys.stdin, sys.stdout, d._stdout)
    sys.stdin, sys.stdout, d._stdout = stdin, redirected, reply
    exc = None
    try:
        asyncio.run(d.main())
    except BaseException as e:  # noqa: BLE001
        exc = repr(e)
    finally:
        sys.stdin, sys.stdout, d._stdout = saved
    return reply.getvalue(), stdin.marks, redirected.getvalue(), exc, lines


def judge(classes, reply, marks, redirected, exc):
    """None or (symptom, description).  Also returns observations."""
    if exc:
        return ("daemon-raised", exc)
    if redirected:
        return ("wrote-to-redirected-stdout", redirected[:200])
    # marks[j] = reply length when the daemon asked for line j (j = 0..); marks has one entry per readline call
    exited_at = None
    for j, c in enumerate(classes):
        if c == "EXIT":
            exited_at = j
            break
    expected_reads = (exited_at + 1) if exited_at is not None else len(classes) + 1
    if len(marks) != expected_reads:
        return ("loop-ended-early" if len(marks) < expected_reads else "read-after-exit", f"{len(marks)} readline calls, expected {expected_reads}")
    marks = marks + [len(reply)]
    n_served = exited_at if exited_at is not None else len(classes)
    for j in range(n_served):
        seg = reply[marks[j] : marks[j + 1]]
        c = classes[j]
        if c == "blank":
            if seg:
                return ("answered-a-blank-line", repr(seg[:100]))
            continue
        if seg.count("\n") != 1 or not seg.endswith("\n"):
            return ("not-exactly-one-line", f"step {j} ({c}): reply stream gained {seg.count(chr(10))} lines: {seg[:120]!r}")
        try:
            obj = json.loads(base64.b64decode(seg.strip(), validate=True).decode("utf-8"))
        except Exception as e:  # noqa: BLE001
            return ("reply-not-base64-json", f"step {j} ({c}): {e!r}")
        if not isinstance(obj, dict):
            return ("reply-not-an-object", f"step {j} ({c}): {obj!r}")
        if c in VALID:
            if "code" not in obj or str(1000 + j) not in obj["code"]:
                return ("wrong-or-misordered-answer", f"step {j} ({c}): reply does not carry the planted constant {1000 + j}: {str(obj)[:200]}")
        else:
            if "error" not in obj:
                return ("error-request-answered-without-error", f"step {j} ({c}): {str(obj)[:200]}")
    if len(reply) != marks[n_served]:
        return ("output-after-exit", repr(reply[marks[n_served] :][:100]))
    return None


def real_process(lines):
    env = dict(os.environ)
    repo = os.environ.get("PYTRAPIC_REPO", "/repo")
    env["PYTHONPATH"] = repo + "/src"
    p = subprocess.run([sys.executable, "-m", "stationeers_pytrapic.mod_daemon"], input=("".join(l + "\n" for l in lines)).encode(), stdout=subprocess.PIPE, stderr=subprocess.PIPE, env=env, timeout=120)
    return p.stdout.decode("utf-8", "replace"), p.returncode


def run_case(case):
    out = {"key": case["key"], "family": case["family"], "symptom": None, "detail": None}
    n = steps = conf = inconclusive = 0
    states = set()
    for classes in case["histories"]:
        reply, marks, redirected, exc, lines = run_history(classes)
        n += 1
        steps += len(classes)
        bad = judge(classes, reply, marks, redirected, exc)
        for j in range(len(marks)):
            states.add((j, marks[j] > (marks[j - 1] if j else 0), classes[j - 1] if j else None))
        if bad is None and case.get("conformance"):
            try:
                rout, rc = real_process(lines)
                conf += 1
                if rout != reply:
                    # a constexpr helper timeout (1 s limit, load dependent) on one side is not a difference of the daemon
                    la, lb = reply.split("\n"), rout.split("\n")
                    same = len(la) == len(lb)
                    if same:
                        for x, y in zip(la, lb):
                            if x != y:
                                try:
                                    tx, ty = base64.b64decode(x).decode(), base64.b64decode(y).decode()
                                except Exception:  # noqa: BLE001
                                    same = False
                                    break
                                if comp.TIMEOUT_TEXT in tx or comp.TIMEOUT_TEXT in ty:
                                    inconclusive += 1
                                else:
                                    same = False
                                    break
                    if not same:
                        bad = ("real-process-differs", f"in-process replies {reply[:200]!r} / real process stdout {rout[:200]!r}")
                elif rc != 0:
                    bad = ("real-process-exit-status", str(rc))
            except subprocess.TimeoutExpired:
                bad = ("real-process-hang", "no exit within 120 s after EOF on stdin")
        if bad and out["symptom"] is None:
            out["symptom"] = bad[0]
            out["detail"] = {"history": list(classes), "description": bad[1], "lines": lines, "replies": reply[:2000]}
    out["stats"] = {"evaluations": n, "nontrivial": n, "transitions": steps, "states": len(states), "conformance": conf, "inconclusive": inconclusive, "state_set": sorted(map(str, states))[:0]}
    out["sample"] = {"history": list(case["histories"][-1])}
    return out


def build_cases(tier):
    cases = []
    L = 3 if tier == "quick" else 4
    hist = []
    for ln in range(0, L + 1):
        for h in itertools.product(ALPHABET, repeat=ln):
            hist.append(h)
    for j in range(0, len(hist), 400):
        chunk = hist[j : j + 400]
        cases.append({"family": "SEQ", "histories": chunk, "key": common.hkey("H", tier, j)})
    # conformance with the real process: all sequences of length <= 2 over the alphabet + constexpr-prints, and a fixed cover
    alpha2 = ALPHABET + ["constexpr-prints"]
    conf = [h for ln in range(0, 3) for h in itertools.product(alpha2, repeat=ln) if h.count("constexpr-prints") <= 1]
    cover = [
        ("valid", "bad-base64", "valid", "EXIT"), ("blank", "blank", "valid", "blank"), ("internal-error", "valid", "internal-error", "valid"),
        ("valid", "EXIT", "valid", "valid"), ("json-array", "json-scalar", "non-json", "non-utf8"), ("bad-options", "code-wrong-type", "missing-code", "unknown-action"),
        ("valid-modules", "valid-crlf-extra", "valid", "valid-modules"), ("syntax-error", "constexpr-prints", "valid", "EXIT"), ("valid",) * 6, ("bad-base64",) * 5 + ("valid",),
    ]
    if tier == "thorough":
        cover += [h for h in itertools.product(["valid", "bad-base64", "blank", "internal-error", "exit-lookalike", "EXIT"], repeat=3)]
    conf += cover
    if tier == "quick":
        conf = conf[::3] + cover
    for j in range(0, len(conf), 12):
        cases.append({"family": "CONFORMANCE", "histories": conf[j : j + 12], "conformance": True, "key": common.hkey("C", tier, j)})
    return cases


def run(tier, propose=False):
    cases = build_cases(tier)

    def mc(cs, outs):
        return {
            "states": max(1, sum((o.get("stats") or {}).get("states", 0) for o in outs)),
            "transitions": max(1, sum((o.get("stats") or {}).get("transitions", 0) for o in outs)),
            "traces_validated_against_impl": sum((o.get("stats") or {}).get("conformance", 0) for o in outs),
            "histories": sum((o.get("stats") or {}).get("evaluations", 0) for o in outs),
            "alphabet": ALPHABET,
        }

    return common.enum_check(PROP, tier, cases, run_case, LEVEL, RULE, ASSUME, propose_only=propose, mc_keys=mc, det_n=3, exhaustive=True)


def replay(path):
    return common.replay_generic(path, run_case)
