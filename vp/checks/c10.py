"""C10 compile_code always returns a verdict, promptly, and cleans up (DESIGN 4, C10; fault enumeration on the input)."""
import glob
import itertools
import os
import re
import resource
import signal
import time

from .. import comp, corpus
from .. import families as F
from . import common

PROP = "C10"
LEVEL = "fault_enumeration"
RULE = (
    "Fault enumeration on the input of compile_code.  For each seed source (the repository's test cases, examples and library "
    "scripts without constexpr, plus samples of every program family): EVERY prefix (one per character position -- the editor "
    "compiles on every keystroke), every single-line deletion, every line duplicated / swapped with its successor, every single-token "
    "substitution from a 24-token menu (quick: 24 seeds and every 2nd token position; thorough: all seeds); ~90 hand-written "
    "adversarial texts (NUL, lone surrogates in code / comment / string / library module, BOM, CRLF, tabs, 3000 nested operators, "
    "400-digit integer, 1e999, break/continue/return/yield at top level, Lua-looking text, directives naming dunder attributes, "
    "module maps with broken library modules, unsupported constructs); every option field set to each of {True, False, None, 0, 1, "
    "'yes'}; 8 recursive programs x all 32 behaviour option vectors (each must be an error verdict); a scaling set (17 statement kinds repeated 1..24 times, 4 constructs nested to depth 12: compile time must stay inside the bound); and the constexpr fault set {raises, prints, returns a non-JSON value, returns NaN, loops forever (plain, swallowing KeyboardInterrupt / every exception, in a finally block, ignoring SIGINT / SIGTERM), recursion, "
    "sys.exit, huge output, open/eval/exec} x {main code, function body, library module}.  Oracle per call: no exception escapes; "
    "the result is a dict with exactly one of 'code' (a str, with integer num_lines/num_bytes/num_registers consistent with it) or "
    "'error' (a dict with a str description; if a position is given then 1 <= line <= number of lines of the submitted text + 1 and "
    "0 <= column <= length of that line + 1); the call returns within 10 s of CPU time and a 60 s wall-clock watchdog; afterwards "
    "the worker has no child process.  distinct_nontrivial = distinct (verdict kind, error class) x input pairs."
)
RULE += (
    ' The adversarial set includes constant expressions whose exact value is astronomically large (9 ** 9 ** 9): a verdict is due at once.'
)
ASSUME = [
    "a terminating constexpr function may legitimately be reported as 'Timeout' when the machine is loaded (1 s limit inside the compiler); both verdicts are well-formed and accepted",
    "error positions are judged against the main module's text, or the longest module when several are submitted",
]

MENU = ["", "(", ")", ":", "=", "==", ".", ",", "0", "1e999", "None", "def", "return", "while", "if", "else", "for", "in", "import", "lambda", "yield", "d0", "db", "HASH", '"']
TOKEN = re.compile(r"[A-Za-z_][A-Za-z_0-9]*|\d+\.?\d*|==|!=|<=|>=|\*\*|<<|>>|[^\sA-Za-z_0-9]")


class Hang(Exception):
    pass


def _alarm(signum, frame):
    raise Hang()


def children():
    out = []
    for p in glob.glob(f"/proc/{os.getpid()}/task/*/children"):
        try:
            out += open(p).read().split()
        except OSError:
            pass
    return out


def judge(src, options, expect_child=False):
    """A time-bound excess must be reproducible: machine noise (other load, a garbage collection of the worker's own heap)
    is excluded by re-running the call once; an algorithmic blow-up is slow every time."""
    import gc

    gc.disable()
    try:
        r = _judge(src, options)
        if r[0] == "too-slow":
            gc.enable()
            gc.collect()
            gc.disable()
            r2 = _judge(src, options)
            if r2[0] != "too-slow":
                return r2
        return r
    finally:
        gc.enable()


def _judge(src, options, expect_child=False):
    """Run one call under the watchdog.  -> (symptom or None, description, verdict class)"""
    signal.signal(signal.SIGALRM, _alarm)
    signal.alarm(60)
    t0 = time.process_time()
    c0 = resource.getrusage(resource.RUSAGE_CHILDREN)
    w0 = time.time()
    try:
        try:
            if isinstance(options, dict):
                o = comp.CompileOptions(**options)
            else:
                o = options
        except Exception as e:  # noqa: BLE001  (building the options object is the caller's business)
            return None, "", "options-rejected-by-constructor:" + type(e).__name__
        res = comp._raw_compile_code(src, o)
    except Hang:
        return "hang", "no verdict within the 60 s watchdog", "hang"
    except BaseException as e:  # noqa: BLE001
        return "raised:" + type(e).__name__, repr(e)[:300], "raised"
    finally:
        signal.alarm(0)
    cpu = time.process_time() - t0
    c1 = resource.getrusage(resource.RUSAGE_CHILDREN)
    cpu += (c1.ru_utime + c1.ru_stime) - (c0.ru_utime + c0.ru_stime)
    wall = time.time() - w0
    kids = children()
    if kids:
        time.sleep(0.1)
        kids = children()
        if kids:
            for k in kids:
                try:
                    os.kill(int(k), signal.SIGKILL)
                    os.waitpid(int(k), 0)
                except (OSError, ValueError):
                    pass
            return "helper-process-left-running", f"children after return: {kids}", "leak"
    if cpu > 10.0:
        return "too-slow", f"{cpu:.1f} s of CPU time (wall {wall:.1f} s)", "slow"
    if not isinstance(res, dict):
        return "result-not-a-dict", repr(res)[:200], "shape"
    has_code, has_err = "code" in res, "error" in res
    if has_code == has_err:
        return "neither-or-both-code-and-error", str(sorted(res))[:200], "shape"
    if has_code:
        code = res["code"]
        if not isinstance(code, str):
            return "code-not-a-string", repr(type(code)), "shape"
        for k in ("num_lines", "num_bytes", "num_registers"):
            if not isinstance(res.get(k), int) or isinstance(res.get(k), bool):
                return "statistic-missing", f"{k} = {res.get(k)!r}", "shape"
        if res["num_lines"] != (code.count("\n") + 1 if code else 0) or not (0 <= res["num_registers"] <= 16) or res["num_bytes"] < len(code):
            return "statistics-inconsistent", str({k: res[k] for k in ("num_lines", "num_bytes", "num_registers")}) + f" for {len(code)} characters / {code.count(chr(10)) + 1} lines", "shape"
        return None, "", "code"
    err = res["error"]
    if not isinstance(err, dict) or not isinstance(err.get("description"), str) or not err["description"]:
        return "error-without-description", repr(err)[:300], "shape"
    texts = [src] if isinstance(src, str) else [v for v in src.values() if isinstance(v, str)] if isinstance(src, dict) else []
    main = src if isinstance(src, str) else (src.get("") if isinstance(src, dict) and isinstance(src.get(""), str) else None)
    for key in ("line", "line_end"):
        if key in err and err[key] is not None:
            ln = err[key]
            if not isinstance(ln, int) or isinstance(ln, bool):
                return "error-position-not-an-integer", f"{key} = {ln!r}", "shape"
            nmax = max([t.count("\n") + 1 for t in texts] or [1])
            if not (1 <= ln <= nmax + 1):
                return "error-position-outside-text", f"{key} = {ln} but the submitted text has {nmax} lines", "position"
    if "column" in err and err["column"] is not None and "line" in err and err["line"] is not None:
        col = err["column"]
        if not isinstance(col, int) or isinstance(col, bool):
            return "error-position-not-an-integer", f"column = {col!r}", "shape"
        cands = []
        for t in texts:
            ls = t.split("\n")
            if 1 <= err["line"] <= len(ls):
                cands.append(len(ls[err["line"] - 1]))
            elif err["line"] == len(ls) + 1:
                cands.append(0)
        if cands and not (0 <= col <= max(cands) + 1):
            return "error-position-outside-text", f"column = {col} but line {err['line']} has {max(cands)} characters", "position"
    cls = "error:" + ("internal" if "stack_trace" in err else re.sub(r"[^A-Za-z ]", "", err["description"])[:24])
    return None, "", cls


def mutations(seed, tier):
    """All fault injections for one seed text."""
    n = len(seed)
    for i in range(n + 1):
        yield ("prefix", i), seed[:i]
    lines = seed.split("\n")
    for i in range(len(lines)):
        yield ("delete-line", i), "\n".join(lines[:i] + lines[i + 1 :])
        yield ("duplicate-line", i), "\n".join(lines[: i + 1] + lines[i:])
        if i + 1 < len(lines):
            yield ("swap-lines", i), "\n".join(lines[:i] + [lines[i + 1], lines[i]] + lines[i + 2 :])
    toks = list(TOKEN.finditer(seed))
    step = 2 if tier == "quick" else 1
    for ti in range(0, len(toks), step):
        m = toks[ti]
        for r in MENU:
            if r != m.group(0):
                yield ("token", ti, r), seed[: m.start()] + r + seed[m.end() :]


def run_case(case):
    import warnings

    warnings.filterwarnings("ignore", category=SyntaxWarning)  # CPython's own warnings about the faulted texts
    out = {"key": case["key"], "family": case["family"], "symptom": None, "detail": None}
    n = 0
    first_kind = None
    classes = set()
    if case["family"] == "SEED":
        it = ((tag, txt, None, comp.DEFAULTS) for tag, txt in mutations(case["seed"], case["tier"]))
    else:
        it = ((i, x[0], x[2] if len(x) > 2 else None, x[1]) for i, x in enumerate(case["items"]))
    libs = case.get("modules")
    for tag, txt, expect, opts in it:
        src = dict(libs, **{"": txt}) if libs else txt
        n += 1
        sym, desc, cls = judge(src, opts)
        if case.get("same_class"):
            kind = cls.split(":")[0]
            first_kind = first_kind if n > 1 else kind
            if sym is None and kind != first_kind:
                sym, desc = "verdict-changes-on-resubmission", f"first submission: {first_kind}, submission {n}: {cls}"
        if sym is None and expect == "error" and not cls.startswith("error"):
            sym, desc = "must-be-reported-as-error", f"verdict class {cls!r}: a program of this kind (recursion) has to be rejected with an error"
        classes.add(cls)
        if sym and out["symptom"] is None:
            out["symptom"] = sym
            out["detail"] = {"fault": list(tag) if isinstance(tag, tuple) else tag, "description": desc, "source": txt if isinstance(txt, str) else repr(txt)[:2000], "options": repr(opts)[:300], "modules": libs}
    out["stats"] = {"evaluations": n, "nontrivial": len(classes), "classes": sorted(classes)}
    out["sample"] = {"seed_head": (case.get("seed") or "")[:120]} if case["family"] == "SEED" else {"first_item": repr(case["items"][0])[:300]}
    return out


CX_BODIES = {
    "raises": "    raise ValueError('boom')\n",
    "prints": "    print('hello')\n    return a\n",
    "nonjson": "    return {1, 2, a}\n",
    "object": "    return object()\n",
    "nan": "    return float('nan')\n",
    "inf": "    return 1e308 * 10\n",
    "loops": "    while True:\n        pass\n",
    "recursion": "    return cx(a + 1)\n",
    "loops-swallow-interrupt": "    while True:\n        try:\n            while True:\n                pass\n        except BaseException:\n            pass\n",
    "loops-bare-except": "    while True:\n        try:\n            a = a + 1\n            while a:\n                a = a + 1\n        except:\n            a = 1\n",
    "loops-finally": "    try:\n        while True:\n            pass\n    finally:\n        while True:\n            pass\n",
    "ignores-sigint": "    import signal\n    signal.signal(signal.SIGINT, signal.SIG_IGN)\n    while True:\n        pass\n",
    "ignores-sigterm": "    import signal\n    signal.signal(signal.SIGTERM, signal.SIG_IGN)\n    signal.signal(signal.SIGINT, signal.SIG_IGN)\n    while True:\n        pass\n",
    "forks-child": "    import os\n    if os.fork() == 0:\n        import time\n        time.sleep(30)\n        os._exit(0)\n    return a\n",
    "sysexit": "    import sys\n    sys.exit(3)\n",
    "hugeout": "    return 'x' * 3000000\n",
    "sleep": "    import time\n    time.sleep(5)\n    return a\n",
    "forbidden-open": "    return open('/etc/hostname').read()\n",
    "forbidden-eval": "    return eval('a')\n",
    "stderr": "    import sys\n    sys.stderr.write('e' * 200000)\n    return a\n",
    "none": "    return None\n",
    "str": "    return 'abc'\n",
}


def adversarial():
    A = []
    a = lambda s, o=None: A.append((s, dict(comp.DEFAULTS, **(o or {}))))
    # constant expressions whose exact value is astronomically large: folding must give a verdict at once (overflow error or inf), not
    # start exact big-integer arithmetic
    for s in ["db.Setting = 9 ** 9 ** 9\n", "x = 7 ** 7 ** 7 ** 7\ndb.Setting = x\n", "K = 12345 ** 6789 ** 1011\nif K > 1:\n    db.On = 1\n", "db.Setting = 1 << 10 ** 12\n"]:
        a(s)
    for s in ["", "\n", " ", "\t", "\x00", "x = 1\x00\n", "\ufeffdb.Setting = 1\n", "db.Setting = 1\r\ndb.On = 2\r\n", "db.Setting = 1\r", "\tdb.Setting = 1\n", "x = '\ud800'\n", "# \udc00\ndb.Setting = 1\n",
              "db.Setting = \udcff\n", "é = 1\ndb.Setting = é\n", "db.Setting = " + "-" * 3000 + "1\n", "db.Setting = " + "(" * 300 + "1" + ")" * 300 + "\n", "db.Setting = " + "1 + " * 2000 + "1\n",
              "db.Setting = " + "9" * 400 + "\n", "db.Setting = 1e999\n", "db.Setting = -1e999\n", "db.Setting = 1e-999\n", "db.Setting = 0x" + "f" * 40 + "\n", "db.Setting = 1j\n", "db.Setting = 1_000\n", "db.Setting = 0b101\n", "db.Setting = 0o17\n",
              "break\n", "continue\n", "return 5\n", "yield 1\n", "await x\n", "global q\n", "nonlocal q\n", "pass\n", "...\n", "import os\n", "from os import *\n", "from library import nosuch\n", "from library import\n",
              "require('x')\nlocal a = 1\n", "-- lua comment\nprint(1)\n", "--\n", "require", "# pytrapic: __class__, __init__, __dict__, no-__doc__\ndb.Setting = 1\n", "# pytrapic: " + "compact," * 500 + "\ndb.Setting = 1\n", "# pytrapic:\n", "#pytrapic:no_\n",
              "def f():\n    return f()\ndb.Setting = f()\n", "def f(a):\n    return g(a)\ndef g(a):\n    return f(a)\nf(1)\nf(2)\n", "def f(a, b=2, *c, **d):\n    return a\ndb.Setting = f(1)\n", "def f(a):\n    def g():\n        return a\n    return g()\ndb.Setting = f(1)\n",
              "class A:\n    x = 1\n", "x: int = 1\n", "x = [i for i in range(3)]\n", "x = {1: 2}\ndb.Setting = x[1]\n", "x, y = 1, 2\n", "x = y = 1\ndb.Setting = x\n", "with d0:\n    pass\n", "try:\n    x = 1\nexcept:\n    pass\n", "lambda: 0\n", "x = (yield)\n",
              "db.Setting = d0.Setting.Foo.Bar\n", "db.Setting = d9.Setting\n", "d7.On = 1\n", "db = 5\n", "d0 = d1\n", "HASH = 3\n", "db.Setting = HASH()\n", "db.Setting = HASH(1, 2)\n", "db.Setting = HASH(x)\n", "db.Setting = STR('toolongstring')\n", "db.Setting = STR('é')\n",
              "for i in range(1, 2, 0):\n    db.On = i\n", "for i in range():\n    pass\n", "for i in [1, d0.Setting]:\n    db.On = i\n", "for i in 'abc':\n    db.On = 1\n", "while True:\n    pass\n", "if:\n", "db.Setting = [1, 2][5]\n", "db.Setting = [][0]\n", "x = [1, 2]\ndb.Setting = x[d0.Setting][1]\n",
              "db.Setting = 1 if else 2\n", "def f(r0):\n    return r0\ndb.Setting = f(1)\n", "def sp(a):\n    return a\ndb.Setting = sp(1)\n", "db.Setting = " + "a" * 100000 + "\n", "x = '''" + "\n" * 2000 + "'''\n", "def " + "f" * 5000 + "():\n    pass\n",
              "\n".join(f"v{i} = d0.Setting" for i in range(40)) + "\n" + "\n".join(f"db.On = v{i}" for i in range(40)) + "\n", "stack[600] = 1\n", "stack[-1] = 1\n", "db.Setting = stack['a']\n", "Stack(d9)[0] = 1\n", "x = GasSensor()\ndb.Setting = x.Pressure\n", "x = GasSensor(d0, d1, d2)\n", "db.Setting = Batteries.Charge\n", "db.Setting = Batteries['a']['b'].Charge.Sum\n"]:
        a(s)
    # non-string / odd inputs
    # module maps (all values are text, the main module is present -- anything else is not "text" in the property's sense)
    for s in [{"": ""}, {"": "from library import m\nm.f()\n", "m": ""}, {"": "from library import m\nm.f()\n", "m": "def f(:\n"}, {"": "from library import m\nm.f()\n", "m": "x = '\ud800'\n"}, {"": "from library import m\nm.f()\n", "m": "def f():\n    return f()\n"}, {"": "db.Setting = 1\n", "unused": "def g(:\n"}, {"": "from library import m as m\nfrom library import m as n\nm.f()\nn.f()\n", "m": "def f():\n    db.On = 1\n"}]:
        A.append((s, dict(comp.DEFAULTS)))
    # option values
    for name in comp.OPTION_NAMES:
        for v in (True, False, None, 0, 1, "yes"):
            A.append(("def f(a):\n    db.On = a\nf(1)\nf(HASH('x'))\nwhile True:\n    yield_()\n", dict(comp.DEFAULTS, **{name: v})))
    A.append(("db.Setting = 1\n", None))
    A.append(("db.Setting = 1\n", {"compact": True}))
    A.append(("db.Setting = 1\n", {"no_such_option": True}))
    return A


def constexpr_faults():
    C = []
    for name, body in CX_BODIES.items():
        fn = "@constexpr\ndef cx(a):\n" + body
        C.append((name + "/main", fn + "db.Setting = cx(1)\n", None))
        C.append((name + "/function", fn + "def f(p):\n    db.Setting = cx(2) + p\nwhile True:\n    f(d0.Setting)\n    f(1)\n    yield_()\n", None))
        C.append((name + "/library", "from library import lib\ndb.Setting = lib.cx(3)\n", {"lib": fn}))
    return C


def scaling():
    """REPEAT: one statement kind repeated n times (n = 1, 2, 4, ..., 24).  compile time must stay bounded (a construct whose
    cost doubles per repetition exceeds the 10 s CPU bound long before n = 24)."""
    kinds = {
        "assign": "v{i} = d0.Setting\ndb.On = v{i}\n",
        "reassign": "v = d0.Setting + {i}\ndb.On = v\n",
        "batch-read": "db.Setting = Batteries.Charge.Maximum + {i}\n",
        "named-batch": 'db.Setting = Batteries["B{i}"].Charge.Sum\n',
        "named-batch-var": 'hv = HASH("B{i}")\nGrowLights[hv].On = {i}\ndb.Lock = Batteries[hv].Charge.Maximum\n',
        "named-batch-const": 'hc{i} = HASH("B{i}")\nGrowLights[hc{i}].On = {i}\ndb.Lock = Batteries[hc{i}].Charge.Minimum\n',
        "slot": "db.Setting = ArcFurnace(d0).slot0.Quantity + {i}\nArcFurnaces.Import.Occupied = {i}\n",
        "refid": "rid = d0.ReferenceId\nst = Stack(ref_id=rid)\nst[{i}] = {i}\n",
        "struct": "gs{i} = GasSensor(d{j})\ndb.Setting = gs{i}.Pressure\n",
        "if": "if d0.Setting > {i}:\n    db.On = {i}\nelse:\n    db.On = 0\n",
        "for": "for q{i} in range({i} + 1):\n    db.On = q{i}\n",
        "forlist": "for w{i} in [1, 2, {i}]:\n    db.On = w{i}\n",
        "list": "db.Setting = [1, 2, 3, 4, 5, 6, 7][d0.Setting] + {i}\n",
        "call": "db.Setting = f({i}) + f(d0.Setting)\n",
        "ternary": "db.Setting = {i} if d0.Setting > {i} else d1.Setting\n",
        "boolop": "db.On = d0.Setting > {i} and d1.Setting < {i} or d2.Setting == {i}\n",
        "math": "db.Setting = sqrt(d0.Setting) + sin({i}) + max(d1.Setting, {i})\n",
    }
    out = []
    for name, t in kinds.items():
        items = []
        for n in (1, 2, 4, 8, 12, 16, 24):
            body = "".join(t.format(i=i, j=i % 6) for i in range(n))
            src = ("def f(a):\n    db.Mode = a\n    return a + 1\n" if name == "call" else "") + body
            items.append((src, dict(comp.DEFAULTS)))
            items.append((src, dict(comp.DEFAULTS, inline_functions=False, compact=True, remove_labels=True)))
        out.append((name, items))
    # nesting depth instead of repetition
    for name, mk_ in (("nested-if", lambda d: "".join("    " * k + f"if d0.Setting > {k}:\n" for k in range(d)) + "    " * d + "db.On = 1\n"),
                      ("nested-for", lambda d: "".join("    " * k + f"for i{k} in range(2):\n" for k in range(d)) + "    " * d + "db.On = 1\n"),
                      ("nested-call", lambda d: "".join(f"def f{k}(a):\n    return " + (f"f{k - 1}(a + 1) + f{k - 1}(a)" if k else "a") + "\n" for k in range(d)) + f"db.Setting = f{d - 1}(d0.Setting)\n"),
                      ("nested-expr", lambda d: "db.Setting = " + "(" * d + "d0.Setting" + "".join(f" + {k})" for k in range(d)) + "\n")):
        items = [(mk_(d), dict(comp.DEFAULTS)) for d in (1, 2, 4, 6, 8, 10, 12)]
        out.append((name, items))
    return out


def recursion_set():
    """Recursive programs (direct, mutual, via three functions, in tail and non-tail position) x all 32 behaviour option vectors:
    every one must be reported as an error."""
    import itertools as _it

    progs = [c["src"] for c in F.func_cyclic()] + [
        "def f(n):\n    if n > 0:\n        f(n - 1)\nwhile True:\n    f(d0.Setting)\n    f(2)\n    yield_()\n",
        "def f(n):\n    db.On = n\n    f(n + 1)\nf(0)\n",
        "def f(n):\n    if n > 0:\n        return n * f(n - 1)\n    return 1\ndb.Setting = f(d0.Setting)\n",
        "def f(n):\n    return g(n)\ndef g(n):\n    return f(n)\ndb.Setting = f(1)\ndb.On = g(2)\n",
    ]
    vs = [dict(zip(comp.BEHAVIOUR_OPTS, v)) for v in _it.product([False, True], repeat=5)]
    return [(p, dict(comp.DEFAULTS, **v), "error") for p in progs for v in vs]


def seeds(tier):
    S = []
    for p in corpus.programs("quick"):
        if p["family"] in ("REPO",) and "constexpr" not in p["src"] and len(p["src"]) < 2500:
            S.append((p["src"], None))
        elif p["family"] == "REPO-LIB" and not any("constexpr" in v for v in (p["modules"] or {}).values()) and len(p["src"]) < 1500:
            S.append((p["src"], p["modules"]))
    for fam, g in (("CTRL", F.ctrl), ("FUNC", F.func), ("FUNC2", F.func2), ("LIST", F.lists), ("DEV", F.dev), ("LIB", F.lib), ("DEAD", F.dead)):
        cs = g("quick")
        for c in cs[:: max(1, len(cs) // 3)][:3]:
            S.append((c["src"], c.get("modules")))
    S.sort(key=lambda x: len(x[0]))
    if tier == "quick":
        S = S[::2][:24]
    return S


def build_cases(tier):
    cases = []
    for src, mods in seeds(tier):
        cases.append({"family": "SEED", "seed": src, "modules": mods, "tier": tier, "key": common.hkey("S", src, mods, tier)})
    A = adversarial()
    for j in range(0, len(A), 12):
        cases.append({"family": "ADVERSARIAL", "items": A[j : j + 12], "key": common.hkey("A", j, [repr(x) for x in A[j : j + 12]])})
    R = recursion_set()
    for j in range(0, len(R), 32):
        cases.append({"family": "RECURSION", "items": R[j : j + 32], "key": common.hkey("REC", j, R[j][0])})
    for name, items in scaling():
        cases.append({"family": "REPEAT", "items": items, "key": common.hkey("R", name, [i[0] for i in items])})
    for name, src, mods in constexpr_faults():
        # the same faulty program is submitted three times (the editor recompiles on every keystroke): each verdict must be
        # well-formed and of the same class as the first one
        triple = name.endswith("/main") and name.split("/")[0] in ("raises", "prints", "nonjson", "loops", "sleep", "sysexit", "loops-swallow-interrupt", "none")
        items = [(src, dict(comp.DEFAULTS))] + ([(src, dict(comp.DEFAULTS)), (src, dict(comp.DEFAULTS, compact=True, remove_labels=True))] if triple else [])
        cases.append({"family": "CONSTEXPR-FAULT", "items": items, "same_class": triple, "modules": mods, "key": common.hkey("C", name, src, mods, triple), "name": name})
    return cases


def run(tier, propose=False):
    cases = build_cases(tier)
    # long cases first
    cases.sort(key=lambda c: -(len(c.get("seed") or "") ** 2 if c["family"] == "SEED" else 10 ** 7 if c["family"] == "CONSTEXPR-FAULT" else 0))

    def extra(cs, outs):
        cl = set()
        for o in outs:
            cl.update((o.get("stats") or {}).get("classes", []))
        return {"verdict_classes_seen": sorted(cl), "seeds": sum(1 for c in cs if c["family"] == "SEED")}

    return common.enum_check(PROP, tier, cases, run_case, LEVEL, RULE, ASSUME, propose_only=propose, extra_cov=extra, det_n=0, nontrivial=lambda o: (o.get("stats") or {}).get("nontrivial", 0), exhaustive=True,
                             slow_phase=(lambda c: c["family"] == "CONSTEXPR-FAULT", 6))


def replay(path):
    return common.replay_generic(path, run_case)
