"""C02 Every option combination preserves behaviour (DESIGN 4, C02)."""
import itertools

from .. import comp
from .. import families as F
from . import common

PROP = "C02"
LEVEL = "model_checking"
RULE = (
    "X-ENUM over FUNC, LIST, a CTRL sub-family and DEV x all 2^5 vectors of the behaviour-relevant options, each vector given "
    "once through the API and once through '# pytrapic:' directive lines (64 compilations per program); on a sub-family all 2^8 "
    "vectors including the three cosmetic options.  Compilations are grouped by comment-stripped instruction text; every distinct "
    "text is executed by X-RUN under one shared lazily built environment and compared with the reference executor R and with each "
    "other (effect traces, termination class, CALLS/SPBAL monitors).  Non-trivial case = >= 2 distinct effect traces explored."
)
RULE += (
    ' Also CALLARG (14 expressions whose call arguments are calls, in main code and inside a function) under all 64 vectors.'
)
RULE += (
    " Also a NAMECLASH subset (device names and hashed strings that contain '#' or the name of a function, next to jump targets)."
)
ASSUME = [
    "reference IC10 machine M and reference executor R as in C01",
    "two option vectors whose comment-stripped instruction texts are identical behave identically (they are the same program)",
]

B5 = comp.BEHAVIOUR_OPTS
COSMETIC = ("original_code_as_comment", "generated_comments", "append_version")


def vec32():
    return [dict(zip(B5, v)) for v in itertools.product([False, True], repeat=5)]


def vec256():
    names = B5 + COSMETIC
    return [dict(zip(names, v)) for v in itertools.product([False, True], repeat=8)]


def build_cases(tier):
    cases = []
    v32 = vec32()
    v64 = v32 + [dict(v, _pragma=True) for v in v32]
    funcs = F.func(tier)
    for c in funcs:
        cases += common.split_call_case(c, v64)
    # call mechanics shapes (tail position, loops, conditional calls, 0..5 arguments): every 4th (quick) / 2nd program
    f2 = F.func2(tier)
    for c in f2[:: (4 if tier == "quick" else 2)]:
        cases += common.split_call_case(c, v64)
    for c in F.func3(tier)[:: (4 if tier == "quick" else 1)]:
        cases.append(dict(c, variants=v64))
    # strings that contain '#' or the name of a function, next to jump targets: remove_labels / compact / comment options must not
    # change what such a program does
    for c in F.names_clash():
        if c["names"][0] in ("pump", "Setting") and (c["use"].startswith("hash-") or c["use"] == "devname"):
            cases.append(dict(c, variants=v64))
    # calls whose arguments are calls: the outer call's argument slots / pushes around the inner call
    for c in F.callarg(tier):
        cases += common.split_call_case(c, v64)
    for c in F.w_alias()[5:]:
        cases.append(dict(c, variants=[{}, {"inline_functions": False}, {"inline_functions": False, "use_push_pop_functions": True}]))
    from .c05 import is_f05b

    for c in F.names_inline():
        vv = [v for v in v32 if not v["tail_call_optimization"] and (c["family"] != "NAMESINL-TERM" or v["inline_functions"])]
        cases.append(dict(c, variants=vv, family=("W-F05b" if is_f05b(c["names"]) else c["family"])))
    # parameters / globals that are re-assigned inside an (inlined or not) function: binding by alias vs by copy
    for c in F.constprop(tier):
        if c["tag"].startswith(("param", "global")):
            cases.append(dict(c, variants=[v for v in v64 if not v["tail_call_optimization"]]))
    for c in F.w_tailcall():
        cases.append(dict(c, variants=[v for v in v32 if not v["inline_functions"]]))
    for c in F.lists(tier, lens=range(2, 6)):
        cases.append(dict(c, variants=v64))
    ctrl = F.ctrl("quick")
    step = 12 if tier == "quick" else 3
    cv = [dict(zip(("remove_labels", "compact"), v)) for v in itertools.product([False, True], repeat=2)]
    cv = cv + [dict(v, _pragma=True) for v in cv]
    for c in ctrl[::step]:
        cases.append(dict(c, variants=cv))
    for c in F.dev(tier):
        cases.append(dict(c, variants=v64 if c["src"].startswith("def ") or "\ndef " in c["src"] else cv))
    # all 2^8 vectors (cosmetic options crossed in) on a sub-family
    sub = [c for c in funcs if not common.is_f02a(c)]
    sub = sub[:: (10 if tier == "quick" else 3)]
    for c in sub:
        cases.append(dict(c, family="FUNC-256", variants=vec256(), cap=48))
    for c in cases:
        c["monitors"] = ["calls", "spbal"]
    return common.prepare(cases)


def run(tier, propose=False):
    cases = build_cases(tier)
    return common.xrun_check(PROP, tier, cases, LEVEL, RULE, ASSUME, propose_only=propose)


def replay(path):
    return common.replay_xcase(path)
