"""C18 Share links round-trip (DESIGN 4, C18)."""
import base64
import copy
import itertools
import json
import re
import zlib

from .. import comp  # noqa: F401  (puts /repo/src on sys.path)
from . import common

PROP = "C18"
LEVEL = "exploration"
RULE = (
    "X-ENUM, complete over: every string over an 11-symbol alphabet (ASCII letter, digit, space, newline, double quote, backslash, "
    "e-acute, euro sign, an astral-plane character, a lone high surrogate, a lone low surrogate - the halves a UTF-16 editor leaves when text is cut inside a pair) of length 0..5 (quick) / 0..6 (thorough) as the 'code' value, crossed with both "
    "values of 'compact'; every length 0..600 of three fixed fillers (repetitive, incompressible-looking, unicode) so that every "
    "padding length (encoded length mod 4 in {0,2,3}) and the characters '+', '/' and '=' all occur in the un-substituted base64; "
    "a size ladder (2^k - 1, 2^k, 2^k + 1 for k = 10..20, up to 1 MiB, compressible and incompressible fillers); nested JSON values (lists, numbers, booleans, null, nested dicts, empty dict) and all option-name keys.  Oracle: "
    "decode_data(encode_data(d)) == d, the encoded text matches [A-Za-z0-9_-]*, the encoded text is a pure function of d (two "
    "calls agree), and decoding is a pure function of the link: after the decoded value has been edited in place at every level, decoding the same link again still gives d (and d itself is untouched).  distinct_nontrivial counts dictionaries whose plain base64 contained '+', '/' or '=' (the substitutions were "
    "exercised)."
)
ASSUME = ["only dictionaries that Python's json module itself round-trips are generated (json.loads(json.dumps(d)) == d): string keys; infinities included, NaN excluded because NaN != NaN; a high surrogate directly followed by a low surrogate excluded because JSON reads the two escapes back as one astral character"]

SIGMA = ["a", "7", " ", "\n", '"', "\\", "é", "€", "\U0001F680", "\ud83d", "\udc00"]
URLSAFE = re.compile(r"^[A-Za-z0-9_-]*$")


def fillers(n):
    return [
        "x = 1\n" * (n // 6) + "y"[: n % 6 and 1] * (n % 6),
        "".join(chr(33 + (i * 37 + (i * i) % 11) % 90) for i in range(n)),
        ("é€\U0001F680d0.Setting = " * (n // 16 + 1))[:n],
    ]


def _scribble(x):
    """Edit a decoded value in place, at every level."""
    if isinstance(x, dict):
        for v in list(x.values()):
            _scribble(v)
        x["__edited__"] = 1
    elif isinstance(x, list):
        for v in x:
            _scribble(v)
        x.append("edited")


def run_case(case):
    from stationeers_pytrapic.types import decode_data, encode_data

    out = {"key": case["key"], "family": case["family"], "symptom": None, "detail": None}
    n = 0
    nontriv = 0
    pads = set()
    chars = set()
    for d in case["dicts"]:
        n += 1
        try:
            e = encode_data(d)
            e2 = encode_data(d)
            back = decode_data(e)
        except Exception as ex:  # noqa: BLE001
            out["symptom"] = "raised:" + type(ex).__name__
            out["detail"] = {"dict": d, "exception": repr(ex)[:300]}
            break
        plain = base64.b64encode(zlib.compress(json.dumps(d).encode())).decode()
        pads.add(plain.count("="))
        for ch in "+/=":
            if ch in plain:
                chars.add(ch)
        if any(ch in plain for ch in "+/="):
            nontriv += 1
        if back != d:
            out["symptom"] = "roundtrip-mismatch"
            out["detail"] = {"dict": d, "encoded": e, "decoded": back}
            break
        # the receiver edits what it decoded (code, options, a nested list); decoding the same link again must still give d
        snapshot = copy.deepcopy(d)
        _scribble(back)
        try:
            again = decode_data(e)
        except Exception as ex:  # noqa: BLE001
            out["symptom"] = "raised:" + type(ex).__name__
            out["detail"] = {"dict": d, "exception": repr(ex)[:300], "step": "second decode"}
            break
        if again != snapshot or d != snapshot:
            out["symptom"] = "second-decode-differs"
            out["detail"] = {"dict": snapshot, "encoded": e, "decoded_again": again, "input_after": d}
            break
        if not isinstance(e, str) or not URLSAFE.match(e):
            out["symptom"] = "not-url-safe"
            out["detail"] = {"dict": d, "encoded": e}
            break
        if e != e2:
            out["symptom"] = "encoding-not-deterministic"
            out["detail"] = {"dict": d, "encoded": [e, e2]}
            break
    out["stats"] = {"evaluations": n, "nontrivial": nontriv, "pads": sorted(pads), "chars": sorted(chars)}
    out["sample"] = {"dict": case["dicts"][0], "encoded": None}
    try:
        out["sample"]["encoded"] = encode_data(case["dicts"][0])
    except Exception:  # noqa: BLE001
        pass
    return out


def build_cases(tier):
    cases = []
    L = 5 if tier == "quick" else 6
    # strings: one case per (length, first symbol) so that work spreads over the workers
    for ln in range(0, L + 1):
        if ln == 0:
            groups = [[""]]
        else:
            groups = [["".join(t) for t in itertools.product([s0], *([SIGMA] * (ln - 1)))] for s0 in SIGMA]
        for g in groups:
            dicts = [{"code": s, "compact": b} for s in g if "\ud83d\udc00" not in s for b in (False, True)]
            cases.append({"family": "STRINGS", "dicts": dicts, "key": common.hkey("S", ln, g[0])})
    for lo in range(0, 601, 50):
        dicts = []
        for n in range(lo, min(lo + 50, 601)):
            for f in fillers(n):
                dicts.append({"code": f, "compact": False, "remove_labels": True})
        cases.append({"family": "LENGTHS", "dicts": dicts, "key": common.hkey("L", lo)})
    # size ladder: powers of two and their neighbours up to 1 MiB (buffer / window / chunk boundaries of zlib and base64)
    sizes = sorted({m for k in range(10, 21) for m in (2 ** k - 1, 2 ** k, 2 ** k + 1)} | {1000, 10 ** 4, 10 ** 5, 3 * 10 ** 5, 10 ** 6})
    for n in sizes:
        cases.append({"family": "SIZES", "dicts": [{"code": f, "compact": True} for f in fillers(n)] + [{"code": "x", "blob": [fillers(n // 4)[1]] * 4}], "key": common.hkey("Z", n)})
    from ..comp import OPTION_NAMES

    nested = [
        {},
        {"code": ""},
        {"code": "db.Setting = 1", **{k: True for k in OPTION_NAMES}},
        {"code": "x", **{k: False for k in OPTION_NAMES}},
        {"code": "x", "options": {"compact": True, "nested": {"a": [1, 2.5, -3, None, True, False, "s", [], {}]}}},
        {"a": None, "b": [1, [2, [3, [4]]]], "c": 1e300, "d": -0.0, "e": 12345678901234567890, "f": "\u0000\u001f\u007f"},
        {"": "", " ": " ", "é": "€", "k" * 300: "v" * 3000},
        {"modules": {"": "from library import a\n", "a": "def f():\n    pass\n"}, "code": "\t\r\n"},
        {"code": "퟿�"},
        # Python's json module serialises infinities by default and they compare equal after the round trip (NaN does not)
        {"\ud83d": "\udc00x", "code": "a\ud83d", "modules": {"m\udfff": ["\ud800", {"k": "\udbff \udc00"}]}},
        {"code": "x", "limit": float("inf")},
        {"values": [1.5, float("-inf"), float("inf")], "nested": {"a": [float("inf")]}},
    ]
    cases.append({"family": "NESTED", "dicts": nested, "key": common.hkey("N")})
    return cases


def run(tier, propose=False):
    cases = build_cases(tier)

    def extra(cs, outs):
        pads, chars = set(), set()
        for o in outs:
            pads.update((o.get("stats") or {}).get("pads", []))
            chars.update((o.get("stats") or {}).get("chars", []))
        return {"padding_lengths_seen_in_plain_base64": sorted(pads), "substituted_characters_seen_in_plain_base64": sorted(chars), "vacuous": not (pads >= {0, 1, 2} and chars >= {"+", "/", "="})}

    return common.enum_check(PROP, tier, cases, run_case, LEVEL, RULE, ASSUME, propose_only=propose, extra_cov=extra, do_warmup=False, nontrivial=lambda o: (o.get("stats") or {}).get("nontrivial", 0))


def replay(path):
    return common.replay_generic(path, run_case)
