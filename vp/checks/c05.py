"""C05 Every jump lands where the construct meant (DESIGN 4, C05)."""
import json

from .. import comp, xcase
from .. import families as F
from ..ic10 import ISA, REGS, tokenize, parse_literal
from . import common

PROP = "C05"
LEVEL = "model_checking"
RULE = (
    "X-ENUM over NAMES (all ordered pairs / triples of function names from a 16-name confusable alphabet: prefixes of one another, "
    "dotted-suffix pairs, names that look like generated labels, registers or devices, in 4 skeletons incl. a library module and a host function with an inlined helper), FUNC, "
    "FUNC2, LIST, CTRL and LIB programs x {inline on, off} x {labels kept, removed}.  Per compilation pair: (a) static resolution with "
    "the harness's own tokenizer -- every j/jal/b*/br* target is a label defined exactly once, a line number inside the program, or a "
    "register; no label is defined twice; (b) the relation of the property -- the label-free text equals, line for line (token "
    "sequences), the labelled text with label lines dropped and every label token replaced by the index of the instruction that "
    "follows it; (c) dynamic, X-RUN -- labelled and label-free programs are executed on the IC10 machine for every explored "
    "device-answer sequence and must give the effect trace of the reference executor (a jump to the wrong construct changes or loses "
    "effects; jr jump-table targets are exercised for every index).  Non-trivial case = >= 2 distinct effect traces explored."
)
RULE += (
    " Also NAMECLASH: a function whose name is also a device name string, a word of one, a hashed string, a logic type, a slot type or a batch method used in the same program (10 names x up to 9 uses x 3 placements); the relation oracle resolves a label only in jump-target operands and in the source operand of 'move'."
)
RULE += (
    " NAMECLASH also has strings that contain '#' on branch lines, while tests and device names."
)
ASSUME = [
    "reference IC10 machine M and reference executor R as in C01; M resolves labels by exact token match (never by regex)",
    "in an operand position that takes a logic type / slot type / batch method, M reads a name as the enumeration member even if a label of the same spelling exists (function named 'Setting')",
]

JUMPS = {op: [i for i, k in enumerate(kinds) if k == "l"] for op, kinds in ISA.items() if "l" in kinds}


def static_and_relation(lab_text, nolab_text):
    """Returns None or (symptom, description)."""
    # physical lines count (comment-only and blank lines of raw emitted code are lines of the program); only label lines vanish
    L = [tokenize(l)[0] for l in lab_text.split("\n")]
    defs = {}
    instr = []
    for t in L:
        if t and len(t) == 1 and t[0].endswith(":"):
            name = t[0][:-1]
            if name in defs:
                return ("label-defined-twice", f"label {name!r} is defined twice in the labelled output")
            defs[name] = len(instr)
        else:
            instr.append(t)
    n = len(instr)
    for i, t in enumerate(instr):
        for j in JUMPS.get(t[0] if t else "", ()):
            if j + 1 >= len(t):
                return ("jump-operand-missing", f"line {i}: {' '.join(t)}")
            tgt = t[j + 1]
            if tgt in REGS:
                continue
            lit = parse_literal(tgt)
            if lit is not None:
                if not (0 <= lit <= n):
                    return ("jump-out-of-range", f"labelled line {i}: {' '.join(t)}")
                continue
            if tgt not in defs:
                return ("jump-unresolved", f"labelled: {' '.join(t)} -- no such label")
    # a label is resolved only where an instruction takes a line number: the jump / branch target operand, and the source of
    # 'move' (the address of a list loop body); the same text as a logic type, inside HASH("..") or in a comment is not a label
    def is_target(t, k):
        return (k - 1) in JUMPS.get(t[0], ()) or (t[0] == "move" and k == 2)

    expected = [[(str(defs[x]) if (k > 0 and x in defs and is_target(t, k)) else x) for k, x in enumerate(t)] for t in instr]
    N = [tokenize(l)[0] for l in nolab_text.split("\n")]
    for i, t in enumerate(N):
        if not t:
            continue
        if len(t) == 1 and t[0].endswith(":"):
            return ("label-left-in-label-free-output", f"line {i}: {t[0]}")
        for j in JUMPS.get(t[0], ()):
            if j + 1 >= len(t):
                return ("jump-operand-missing", f"line {i}: {' '.join(t)}")
            tgt = t[j + 1]
            if tgt in REGS:
                continue
            lit = parse_literal(tgt)
            if lit is None or lit != int(lit) or not (0 <= lit <= len(N)):
                return ("jump-unresolved-label-free", f"label-free line {i}: {' '.join(t)}")
    if len(N) != len(expected):
        return ("relation:length", f"label-free output has {len(N)} instructions, labelled output has {len(expected)}")
    for i, (a, b) in enumerate(zip(expected, N)):
        if a != b:
            return ("relation:line", f"line {i}: expected {' '.join(a)!r} (labels resolved by the harness) but the label-free output has {' '.join(b)!r}")
    return None


def run_case(case):
    # static / relational part: one pair (labels kept, removed) per base option vector
    src = case["src"]
    mods = case.get("modules")
    inp = dict(mods, **{"": src}) if mods else src
    bases = case.get("bases") or [{"inline_functions": True}, {"inline_functions": False}]
    n_pairs = 0
    for b in bases:
        r1 = comp.compile_code(inp, comp.CompileOptions(**comp.opts(**b)))
        r2 = comp.compile_code(inp, comp.CompileOptions(**comp.opts(**dict(b, remove_labels=True))))
        if comp.is_timeout(r1) or comp.is_timeout(r2):
            # the constexpr / emit_code helper process timed out (machine load) even after the retries: says nothing about labels
            continue
        if "code" in r1 and "code" in r2:
            n_pairs += 1
            bad = static_and_relation(r1["code"], r2["code"])
            if bad:
                key = case.get("key") or xcase.case_key(case)
                return {"key": key, "family": case.get("family"), "symptom": "static:" + bad[0], "detail": {"variant": json.dumps(b), "description": bad[1], "code": r1["code"] + "\n--- label-free ---\n" + r2["code"]}, "stats": {"compiles": 2, "pairs": n_pairs}}
        elif ("code" in r1) != ("code" in r2):
            key = case.get("key") or xcase.case_key(case)
            return {"key": key, "family": case.get("family"), "symptom": "static:one-mode-rejected", "detail": {"variant": json.dumps(b), "description": str((r1.get("error") or r2.get("error")).get("description"))[:300]}, "stats": {"compiles": 2}}
    out = xcase.run_case(case)
    out["stats"]["pairs"] = n_pairs
    out["stats"]["compiles"] = out["stats"].get("compiles", 0) + 2 * len(bases)
    return out


def is_f05b(names):
    """Function names that collide with a generated label: '<g>end' beside g, or a name spelled like lb<kind><n>."""
    s = set(names)
    if s & {"lbwhile1", "lbend2"}:
        return True
    return any(n + "end" in s for n in s)


def variants4():
    return [{"inline_functions": i, "remove_labels": r} for i in (True, False) for r in (False, True)]


def build_cases(tier):
    cases = []
    v4 = variants4()
    for c in F.names_pairs():
        fam = "W-F05b" if is_f05b(c["names"]) else c["family"]
        cases.append(dict(c, family=fam, variants=v4))
    for c in F.names_lib():
        mod = next(iter(c["modules"]))
        a, b = c["names"]
        # main-file function '<module>_<f>' gets the same label '<module>.<f>' as the library function (finding F-05c)
        fam = "W-F05c" if b == f"{mod}_{a}" and "import " + mod + "\n" in c["src"] else ("W-F05b" if is_f05b([a, "twice"]) or is_f05b([b]) else c["family"])
        cases.append(dict(c, family=fam, variants=v4))
    for c in F.names_inline():
        fam = "W-F05b" if is_f05b(c["names"]) else c["family"]
        vv = v4 if c["family"] != "NAMESINL-TERM" else [v for v in v4 if v["inline_functions"]]  # terminating main: nothing may be out of line (F-07)
        cases.append(dict(c, family=fam, variants=vv, bases=[{"inline_functions": True}] if c["family"] == "NAMESINL-TERM" else None))
    for c in F.names_clash():
        cases.append(dict(c, variants=v4))
    trip = F.names_triples(step=1 if tier == "thorough" else 9)
    for c in trip:
        fam = "W-F05b" if is_f05b(c["names"]) else c["family"]
        cases.append(dict(c, family=fam, variants=v4))
    vs_nt = [v for v in v4]
    for c in F.func(tier)[:: (3 if tier == "quick" else 1)] + F.func2(tier)[:: (3 if tier == "quick" else 1)]:
        cases += [x for x in common.split_call_case(c, vs_nt)]
    for c in F.func3(tier):
        cases.append(dict(c, variants=v4))
    for c in F.lists(tier, lens=range(2, 6)):
        cases.append(dict(c, variants=v4))
    for c in F.lists(tier, lens=range(6, 10)):
        cases.append(dict(c, variants=v4, family="W-LIST6+"))
    for c in F.emit(tier):
        cases.append(dict(c, variants=[{"remove_labels": False}, {"remove_labels": True}, {"remove_labels": True, "inline_functions": False}], bases=[{}, {"inline_functions": False}], monitors=[]))
    for c in F.ctrl3(tier):
        cases.append(dict(c, variants=[{"remove_labels": False}, {"remove_labels": True}], bases=[{}, {"inline_functions": False}]))
    for c in F.ctrl(tier)[:: (5 if tier == "quick" else 2)]:
        cases.append(dict(c, variants=[{"remove_labels": False}, {"remove_labels": True}], bases=[{}]))
    for c in cases:
        c["monitors"] = ["calls", "region"]
    return common.prepare(cases)


def run(tier, propose=False):
    cases = build_cases(tier)
    return common.xrun_check(PROP, tier, cases, LEVEL, RULE, ASSUME, propose_only=propose, fn=run_case, extra_cov=lambda cs, outs: {"labelled_vs_label_free_pairs_compared": sum((o.get("stats") or {}).get("pairs", 0) for o in outs)})


def replay(path):
    return common.replay_xcase(path, fn=run_case)
