"""C01 Compiled IC10 behaves like the source (DESIGN 4, C01)."""
from .. import families as F
from . import common

PROP = "C01"
LEVEL = "model_checking"
RULE = (
    "X-ENUM over the program families CTRL, CTRL2, EXPR, FUNC, FUNC2, FUNC3, FORFN, CONSTPROP, INTRINSIC, LATESTORE, WRAP, CTRL3 (8 compound while tests x 10 break / continue / nested-loop bodies), AUG (10 augmented-assignment operators x 3 operands x 4 contexts), UNUSED (results never read whose computation has effects), DEV, LIST, DEAD (compile-time constant tests guarding effects and calls) (+ witness families of open findings); "
    "for each program X-RUN explores every device/stack answer sequence over the per-program alphabet V "
    "(full product when it fits the cap, else <= 2 deviations) up to K effects / T yields, on the emitted IC10 "
    "(reference machine M, zeroed and poisoned initial registers) and on the reference executor R (CPython + Num); "
    "oracle: equal effect traces and termination class.  A case is non-trivial when its exploration produced >= 2 "
    "distinct effect traces (the environment mattered)."
)
RULE += (
    ' Also CALLARG (14 expressions whose call arguments are calls, in main code and inside a function), DEADLIB (dropped code that mentions a library function: 6 guards x 5 statements x 3 program shapes) and LIST contexts that bind the looked-up value to a name read twice.'
)
RULE += (
    ' Also SYNTAX (one program per Python construct - about 90 forms inside and outside the supported subset, each also inside a twice-called function: whatever is accepted must behave like the source) and GLOBALS (module-level variables written inside functions: 5 function shapes x 4 main shapes x 3 positions of the initialisation); DEAD has an action whose callee contains an @emit_code call.'
)
ASSUME = [
    "reference IC10 machine M (vp/ic10.py) models the game's chip for the opcodes used",
    "reference executor R (vp/ref.py): CPython control flow + IC10 arithmetic in Num",
    "enum name->number tables are taken from the repository (C16 checks their consistency)",
    "device reads are a function of (read key, number of effects so far): duplicated reads within one epoch are indistinguishable",
]


def build_cases(tier):
    cases = []
    ctrl = F.ctrl(tier)
    if tier == "quick":
        ctrl = [c for c in ctrl if c["family"] != "CTRL" or c["idx"] % 2 == 0 or c["src"].count("\n") <= 7]
    cases += ctrl
    cases += F.expr(tier)
    cases += F.func(tier)
    cases += F.dev(tier)
    cases += F.lists(tier, lens=range(2, 6))
    cases += F.dead(tier)
    for c in F.deadlib(tier):
        cases.append(dict(c, variants=[{}] if c["family"] != "DEADLIB" else [{}, {"inline_functions": False}]))
    cases += F.callarg(tier)
    cases += F.syntax(tier)
    cases += F.globals_family(tier)
    cases += F.constprop(tier)
    cases += F.intrinsic(tier)
    cases += F.latestore(tier)
    cases += F.ctrl3(tier)
    cases += F.wrap(tier)
    for c in F.augunused(tier):
        cases.append(dict(c, variants=[{}, {"inline_functions": False}, {"inline_functions": False, "use_push_pop_functions": True}]))
    for c in F.forfn(tier)[:: (2 if tier == "quick" else 1)]:
        cases.append(dict(c, K=10))
    for c in F.func2(tier)[:: (4 if tier == "quick" else 2)]:
        cases += common.split_call_case(c, [{}, {"inline_functions": False}])
    for c in F.func3(tier)[::2]:
        cases.append(dict(c, variants=[{}, {"inline_functions": False}]))
    for c in F.lists(tier, lens=[1]):
        c["family"] = "W-LIST1"
        cases.append(c)
    for c in F.lists(tier, lens=range(6, 10)):
        c["family"] = "W-LIST6+"
        cases.append(c)
    cases += F.w_alias() + F.w_forctl() + F.w_loopvar() + F.w_stack0() + F.w_forlist_nested() + F.w_alias_lifetime() + F.w_list1() + F.w_namedslotwrite() + F.w_forstate()
    for c in cases:
        c.setdefault("monitors", [])  # C01 judges traces only; monitors belong to C04/C06/C07
    return common.prepare(cases, default_variants=[{}, {"inline_functions": False}])


def run(tier, propose=False):
    cases = build_cases(tier)
    return common.xrun_check(PROP, tier, cases, LEVEL, RULE, ASSUME, propose_only=propose)


def replay(path):
    return common.replay_xcase(path)
