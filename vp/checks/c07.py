"""C07 When the top-level script finishes, nothing else runs (DESIGN 4, C07)."""
import itertools

from .. import families as F
from . import common

PROP = "C07"
LEVEL = "model_checking"
RULE = (
    "X-ENUM over (i) FUNC, FUNC2, FUNC3, LIST and LIB programs with an endless main: the REGION monitor attributes every emitted "
    "instruction to its function (by object identity, captured from the real code generator) and on every machine transition an edge "
    "between instructions of different functions must be a call edge into the callee's first instruction or a return edge matched by "
    "the shadow call stack; (ii) the TERM family -- 6 function sets x 8 terminating main shapes (straight line, single call, break out "
    "of while True, conditional end, counted while, for-range, call as last statement, end after a yield) x inline on/off x both "
    "calling conventions, and the DEAD family (7 compile-time constant flags x 8 guard shapes x 5 guarded actions, as endless main, terminating main and function body; functions called only from pruned code): after the last top-level instruction the machine must halt, with exactly the effect trace of the reference "
    "executor and no instruction of a function region executed without a call.  X-RUN explores every device-answer sequence.  "
    "Non-trivial case = >= 2 distinct effect traces explored."
)
RULE += (
    ' Also DEADLIB: code dropped at compile time (6 constant guards) that mentions a library function which has one live call site, in terminating and endless programs.'
)
RULE += (
    ' DEAD has an action whose callee contains an @emit_code call (raw lines must not be emitted for code that is never compiled).'
)
ASSUME = [
    "reference IC10 machine M and reference executor R as in C01; running past the last line halts the chip",
    "instruction owners come from the harness-side wrapper of generate_code.assign_registers",
]

CONV = [dict(zip(("inline_functions", "use_push_pop_functions"), v)) for v in itertools.product([True, False], repeat=2)]


def build_cases(tier):
    cases = []
    for c in F.term():
        # with inlining on and every function called from one site only, no function is emitted out of line
        for v in CONV:
            cases.append(dict(c, variants=[v], family=common.term_family(c, v)))
    # constant-flag guards: a function whose only call sites are in pruned code must not be emitted at all
    for c in F.dead(tier):
        cases.append(dict(c, variants=CONV))
    # dropped code that mentions a library function: the mention must not change what is emitted behind a terminating main
    for c in F.deadlib(tier):
        if c["family"] == "DEADLIB":
            cases.append(dict(c, variants=CONV))
        else:
            cases.append(dict(c, variants=[v for v in CONV if v["inline_functions"]]))
            cases.append(dict(c, variants=[v for v in CONV if not v["inline_functions"]], family="W-F07"))
    # nested inlining with suffix / prefix name pairs: nothing may be left behind the main code
    from .c05 import is_f05b

    for c in F.names_inline():
        vv = [v for v in CONV if (c["family"] != "NAMESINL-TERM" or v["inline_functions"])]
        cases.append(dict(c, variants=vv, family=("W-F05b" if is_f05b(c["names"]) else c["family"])))
    step = 3 if tier == "quick" else 1
    for c in F.func(tier)[::step] + F.func2(tier)[::step]:
        cases += common.split_call_case(c, CONV)
    for c in F.func3(tier):
        cases.append(dict(c, variants=CONV))
    for c in F.lists(tier, lens=range(2, 6)):
        cases.append(dict(c, variants=[{}, {"inline_functions": False}]))
    for c in F.lib(tier)[:: (4 if tier == "quick" else 1)]:
        cases += common.split_lib_case(c, CONV)
    for c in cases:
        c["monitors"] = ["region", "calls"]
    return common.prepare(cases)


def run(tier, propose=False):
    cases = build_cases(tier)
    return common.xrun_check(PROP, tier, cases, LEVEL, RULE, ASSUME, propose_only=propose)


def replay(path):
    return common.replay_xcase(path)
