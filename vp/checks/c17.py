"""C17 Reported size statistics describe the emitted program (DESIGN 4, C17)."""
import itertools
import re

from .. import comp, corpus
from ..ic10 import tokenize
from . import common

PROP = "C17"
LEVEL = "exploration"
RULE = (
    "X-ENUM over every program of every family (as C09) x option vectors (quick: 3..10 per program incl. version note and both comment "
    "options; thorough: all 2^5 behaviour vectors, all 2^8 on a sub-family): for every successful result num_lines must equal the "
    "number of lines of 'code' (split at newline, also counted independently as newline count + 1), num_bytes must equal the length of "
    "'code' plus one extra byte per line end (judged for ASCII outputs; non-ASCII outputs are counted separately and judged on "
    "UTF-8 length being >= the reported value only), and num_registers must equal the number of distinct r0..r15 tokens in operand "
    "positions of the emitted instructions (harness tokenizer; comments and HASH/STR strings excluded) -- never smaller, so that no "
    "allocated register is missing from the count -- and be <= 16.  distinct_nontrivial = distinct emitted programs judged."
)
ASSUME = ["programs of the corpus name no register themselves, so every r<N> token in the output was allocated by the transpiler"]

REG = re.compile(r"^r(\d+)$")


def judge(res):
    code = res["code"]
    lines = code.split("\n")
    if code == "":
        lines = []  # a program that emits nothing has no lines
    if res.get("num_lines") != len(lines) or (code != "" and res.get("num_lines") != code.count("\n") + 1):
        return ("num_lines", f"reported {res.get('num_lines')}, code has {len(lines)} lines")
    if not isinstance(res.get("num_bytes"), int) or not isinstance(res.get("num_registers"), int):
        return ("missing-statistic", str({k: res.get(k) for k in ("num_lines", "num_bytes", "num_registers")}))
    ascii_only = all(ord(ch) < 128 for ch in code)
    want = len(code) + max(len(lines) - 1, 0)
    if ascii_only and res["num_bytes"] != want:
        return ("num_bytes", f"reported {res['num_bytes']}, code has {len(code)} characters + {len(lines) - 1} extra line-end bytes = {want}")
    if not ascii_only and res["num_bytes"] > len(code.encode("utf-8")) + len(lines) - 1:
        return ("num_bytes", f"reported {res['num_bytes']} exceeds the UTF-8 size")
    regs = set()
    for l in lines:
        toks = tokenize(l)[0]
        if not toks or (len(toks) == 1 and toks[0].endswith(":")):
            continue
        for t in toks[1:]:
            m = REG.match(t)
            if m and int(m.group(1)) < 16:
                regs.add(int(m.group(1)))
    if res["num_registers"] < len(regs):
        return ("num_registers-too-small", f"reported {res['num_registers']}, the code uses {len(regs)} distinct registers: {sorted(regs)}")
    if res["num_registers"] > 16:
        return ("num_registers-above-16", str(res["num_registers"]))
    if res["num_registers"] != len(regs):
        return ("num_registers-too-large", f"reported {res['num_registers']}, the code uses {len(regs)} distinct registers: {sorted(regs)}")
    return None


def run_case(case):
    out = {"key": case["key"], "family": case["family"], "symptom": None, "detail": None}
    n = 0
    codes = set()
    nonascii = 0
    for prog in case["programs"]:
        inp = dict(prog["modules"], **{"": prog["src"]}) if prog.get("modules") else prog["src"]
        for v in case["vectors"]:
            res = comp.compile_code(inp, comp.CompileOptions(**comp.opts(**v)))
            n += 1
            if "code" not in res:
                continue
            h = hash((res["code"], res.get("num_lines"), res.get("num_bytes"), res.get("num_registers")))
            if h in codes:
                continue
            codes.add(h)
            if any(ord(ch) > 127 for ch in res["code"]):
                nonascii += 1
            bad = judge(res)
            if bad and out["symptom"] is None:
                out["symptom"] = bad[0]
                out["detail"] = {"variant": v, "description": bad[1], "source": prog["src"], "modules": prog.get("modules"), "code": res["code"], "stats": {k: res.get(k) for k in ("num_lines", "num_bytes", "num_registers")}}
    out["stats"] = {"evaluations": n, "nontrivial": len(codes), "nonascii": nonascii}
    out["sample"] = {"source": case["programs"][0]["src"][:300], "vectors": len(case["vectors"])}
    return out


def vec(names):
    return [dict(zip(names, v)) for v in itertools.product([False, True], repeat=len(names))]


NONASCII = ['db.Setting = HASH("é")\n', 'GrowLights["Zürich €"].On = 1\n', 'x = d0.Setting  # ünïcödé comment\ndb.Setting = x\n', 'db.Setting = STR("é")\n']


def build_cases(tier):
    cases = []
    P = corpus.programs(tier)
    B5 = comp.BEHAVIOUR_OPTS
    v32 = vec(B5)
    light = [{}, {"compact": True, "remove_labels": True, "append_version": True}, {"inline_functions": False, "original_code_as_comment": True, "generated_comments": True}]
    mid = vec(("inline_functions", "remove_labels", "compact")) + [{"use_push_pop_functions": True, "inline_functions": False, "append_version": True}, {"tail_call_optimization": True, "inline_functions": False, "generated_comments": True}, {"original_code_as_comment": True, "append_version": True}]
    groups = {}
    for i, p in enumerate(P):
        fam = p["family"]
        if tier == "quick":
            if fam in ("CTRL", "EXPR"):
                if i % 3 != 1:
                    continue
                vs = light
            else:
                vs = mid
        else:
            vs = (v32 + mid[8:]) if fam not in ("CTRL", "EXPR") else mid
        groups.setdefault((fam, id(vs)), (vs, []))[1].append(p)
    for (fam, _), (vs, progs) in groups.items():
        for j in range(0, len(progs), 20):
            chunk = progs[j : j + 20]
            cases.append({"family": fam, "programs": chunk, "vectors": vs, "key": common.hkey("B", fam, [c["src"] for c in chunk], vs)})
    sub = [p for p in P if p["family"] in ("FUNC", "DEV", "LIST", "REPO", "LIB", "REG")][:: (12 if tier == "quick" else 4)][:150]
    v256 = vec(B5 + ("original_code_as_comment", "generated_comments", "append_version"))
    for j in range(0, len(sub), 1):
        chunk = sub[j : j + 1]
        cases.append({"family": "ALL256", "programs": chunk, "vectors": v256, "key": common.hkey("A", [c["src"] for c in chunk])})
    cases.append({"family": "EMPTY", "programs": [{"src": s, "modules": None} for s in ("", "\n", "# only a comment\n", "pass\n", "x = 1\n", "def f(a):\n    db.On = a\n", "import math\n")], "vectors": mid, "key": common.hkey("EMPTY")})
    cases.append({"family": "NONASCII", "programs": [{"src": s, "modules": None} for s in NONASCII], "vectors": mid, "key": common.hkey("NA")})
    return cases


def run(tier, propose=False):
    cases = build_cases(tier)
    extra = lambda cs, outs: {"compilations": sum((o.get("stats") or {}).get("evaluations", 0) for o in outs), "non_ascii_outputs_not_judged_on_exact_bytes": sum((o.get("stats") or {}).get("nonascii", 0) for o in outs)}
    return common.enum_check(PROP, tier, cases, run_case, LEVEL, RULE, ASSUME, propose_only=propose, extra_cov=extra, nontrivial=lambda o: (o.get("stats") or {}).get("nontrivial", 0))


def replay(path):
    return common.replay_generic(path, run_case)
