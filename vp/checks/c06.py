"""C06 Calls return to their call site; arguments and results arrive intact (DESIGN 4, C06)."""
import itertools

from .. import families as F
from . import common

PROP = "C06"
LEVEL = "model_checking"
RULE = (
    "X-ENUM over the call-shape families FUNC (call graphs over <= 3 functions x arity 0..3 x 5 return forms x call contexts), FUNC2 "
    "(leaf/mid shapes: arity 0..5 x 6 return forms incl. three exits x 8 ways the inner call is used incl. tail position, loop, "
    "conditional x live locals across the call x callee inlined or not) and FUNC3 (call depth 4, every level called once or twice) "
    "under the 8 vectors of inline x push/pop x tail-call (quick) or all 32 behaviour vectors (thorough); recursion sub-family must be "
    "rejected.  X-RUN executes every distinct emitted program for every device-answer sequence with the CALLS/SPBAL/REGION monitors: "
    "per transition a shadow call stack checks that 'j ra' returns to the instruction after the call being served, that sp at return "
    "equals sp at the call (minus arguments plus result in the push/pop convention) and that sp at main level never drifts; callees "
    "write a positional encoding of their arguments and callers write the result, so order, count and value are compared with the "
    "reference executor.  Non-trivial case = >= 2 distinct effect traces explored."
)
RULE += (
    ' Also CALLARG (calls as call arguments: argument slots / pushes of the outer call around the inner call).'
)
ASSUME = [
    "reference IC10 machine M and reference executor R as in C01",
    "function entry points and arities for the stack-pointer law come from the harness-side wrapper of generate_code.assign_registers; "
    "when the owner map is unavailable only the weaker main-level sp law is used (counted in codes_without_monitor_meta)",
]

B3 = ("inline_functions", "use_push_pop_functions", "tail_call_optimization")
B5 = ("inline_functions", "remove_labels", "compact", "tail_call_optimization", "use_push_pop_functions")


def vectors(tier):
    names = B5 if tier == "thorough" else B3
    return [dict(zip(names, v)) for v in itertools.product([False, True], repeat=len(names))]


def build_cases(tier):
    cases = []
    vs = vectors(tier)
    for c in F.func(tier) + F.func2(tier) + F.callarg(tier):
        cases += common.split_call_case(c, vs)
    for c in F.func3(tier):
        cases.append(dict(c, variants=vs))
    # host function with an inlined helper whose label is a textual suffix / prefix of the host's (ra save / restore placement)
    from .c05 import is_f05b

    for c in F.names_inline():
        vv = [v for v in vs if not v["tail_call_optimization"] and (c["family"] != "NAMESINL-TERM" or v["inline_functions"])]
        cases.append(dict(c, variants=vv, family=("W-F05b" if is_f05b(c["names"]) else c["family"])))
    for c in F.w_tailcall():
        cases.append(dict(c, variants=[v for v in vs if not v["inline_functions"]]))
    for c in F.func_cyclic():
        cases.append(dict(c, variants=vs, error_must_be_clean=False))
    for c in cases:
        c["monitors"] = ["calls", "spbal", "region"]
    return common.prepare(cases)


def run(tier, propose=False):
    cases = build_cases(tier)
    return common.xrun_check(PROP, tier, cases, LEVEL, RULE, ASSUME, propose_only=propose)


def replay(path):
    return common.replay_xcase(path)
