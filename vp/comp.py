"""Access to the real compiler (imported from /repo's working tree) plus the
harness-side capture wrapper around generate_code.assign_registers that serves
the TAGS and REGION monitors (DESIGN 1.5, 8).  No change to /repo is needed."""
import os
import sys

os.environ.setdefault("PYTRAPIC_VERIF", "1")
_REPO_SRC = os.environ.get("PYTRAPIC_REPO", "/repo") + "/src"
if _REPO_SRC not in sys.path:
    sys.path.insert(0, _REPO_SRC)

from stationeers_pytrapic import compiler as _compiler  # noqa: E402
from stationeers_pytrapic import generate_code as _gc  # noqa: E402
from stationeers_pytrapic.compile_pass import CompileOptions  # noqa: E402
from stationeers_pytrapic.types import IC10Register  # noqa: E402

_raw_compile_code = _compiler.compile_code
TIMEOUT_TEXT = "Timeout during evaluating constexpr"
INCONCLUSIVE = {"n": 0}


def compile_code(src, options):
    """The real compile_code.  The compiler's only timed behaviour is the 1 s limit of a constexpr evaluation (a child process that
    imports the package); under a fully loaded machine a terminating constexpr function can exceed it.  Such a result says nothing
    about the property under test: it is retried (up to 4 times, backing off) and otherwise counted as inconclusive (DESIGN 1.6)."""
    res = _raw_compile_code(src, options)
    tries = 0
    while tries < 4 and isinstance(res, dict) and "error" in res and TIMEOUT_TEXT in str(res["error"].get("description", "")) and not _expects_timeout(src):
        tries += 1
        import time as _t

        _t.sleep(0.5 * tries)
        res = _raw_compile_code(src, options)
    if tries == 4 and "error" in res and TIMEOUT_TEXT in str(res["error"].get("description", "")):
        INCONCLUSIVE["n"] += 1
    return res


def _expects_timeout(src):
    text = src if isinstance(src, str) else "\n".join(map(str, src.values())) if isinstance(src, dict) else ""
    return "VERIF-EXPECT-TIMEOUT" in text


def is_timeout(res):
    return isinstance(res, dict) and "error" in res and TIMEOUT_TEXT in str(res["error"].get("description", ""))

OPTION_NAMES = (
    "original_code_as_comment",
    "generated_comments",
    "inline_functions",
    "remove_labels",
    "append_version",
    "compact",
    "tail_call_optimization",
    "use_push_pop_functions",
)
DEFAULTS = dict(
    original_code_as_comment=False,
    generated_comments=False,
    inline_functions=True,
    remove_labels=False,
    append_version=True,
    compact=False,
    tail_call_optimization=False,
    use_push_pop_functions=False,
)
BEHAVIOUR_OPTS = ("inline_functions", "remove_labels", "compact", "tail_call_optimization", "use_push_pop_functions")

CAP = {}
_attached = False


def _vname(x):
    if isinstance(x, IC10Register):
        ce = x.code_expr
        if isinstance(ce, str) and ce.startswith("__register."):
            return ce
    return None


def _snap(code):
    out = []
    for ins in code:
        o = ins.output
        has_out = o is not None and o != "" and isinstance(o, IC10Register)
        out.append((ins.op, has_out, _vname(o), [_vname(getattr(inp, "value", None)) for inp in ins.inputs]))
    return out


def attach():
    """Wrap assign_registers (idempotent).  Returns False if it cannot attach."""
    global _attached
    if _attached:
        return True
    orig = getattr(_gc, "assign_registers", None)
    if orig is None:
        return False

    def wrapped(data, code):
        try:
            CAP.clear()
            CAP["pre"] = _snap(code)
            owner = {}
            for fname, f in data.functions.items():
                for ins in f.code:
                    owner[id(ins)] = fname
            CAP["owner"] = [owner.get(id(ins)) for ins in code]
            fi = {}
            for fname, f in data.functions.items():
                if fname == "" or f.node is None:
                    continue
                try:
                    fi[fname] = (len(f.node.args.args), bool(f.has_return_value))
                except Exception:
                    pass
            CAP["funcs"] = fi
        except Exception as e:  # never let the monitor break a compile
            CAP.clear()
            CAP["error"] = repr(e)
        return orig(data, code)

    _gc.assign_registers = wrapped
    _attached = True
    return True


def opts(**kw):
    d = dict(DEFAULTS)
    d["append_version"] = False
    d.update(kw)
    return d


def compile_with_meta(src, options: dict):
    """Compile; returns (result, meta or None).  meta maps emitted line numbers to
    pre-allocation virtual register names and to owners."""
    attach()
    CAP.clear()
    res = compile_code(src, CompileOptions(**options))
    if "code" not in res or "pre" not in CAP:
        return res, None
    from .ic10 import tokenize

    pre = [p for p in CAP["pre"]]
    own = CAP["owner"]
    instrs = [(p, o) for p, o in zip(pre, own) if not p[0].endswith(":") and p[0] != ""]
    lines = res["code"].split("\n")
    tags, owner, first = {}, {}, {}
    k = 0
    ok = True
    for i, raw in enumerate(lines):
        toks, _ = tokenize(raw)
        if not toks or (len(toks) == 1 and toks[0].endswith(":")):
            continue
        if k >= len(instrs):
            ok = False
            break
        (op, has_out, o, ins), ow = instrs[k]
        k += 1
        if op != toks[0]:
            # remove_labels may rewrite an op (jal -> jral is never used here); any
            # mismatch means the alignment assumption failed: drop the monitor.
            ok = False
            break
        t = ([o] if has_out else []) + ins
        if len(t) != len(toks) - 1:
            t = [None] * (len(toks) - 1)
        tags[i] = (has_out, t)
        owner[i] = ow
        if ow not in first:
            first[ow] = i
    if not ok or k != len(instrs):
        return res, None
    meta = {"tags": tags, "owner": owner, "first": first, "funcs": dict(CAP.get("funcs", {}))}
    return res, meta
