#!/bin/bash
# wave.sh <suffix> <prop>...: prepare worktrees /tmp/wt/<prop><suffix> with TASK.md (prompt + "already taken" list from tools/taken/<prop>.txt)
sfx=$1; shift
NOTE="Note: the environment variable PYTHONDONTWRITEBYTECODE=1 is set in this shell; run the test command with it unset (prefix: env -u PYTHONDONTWRITEBYTECODE) so that the @constexpr helper process (1 s limit) can use byte-code caches, otherwise 5 constexpr-related tests time out regardless of your change. Other agents are working on the machine at the same time: if only constexpr-related tests fail with 'Timeout during evaluating constexpr', re-run those tests alone. Do not use git stash."
for p in "$@"; do
  /verif/tools/mkwt.sh ${p}${sfx} >/dev/null
  sed "s#/tmp/wt/$p#/tmp/wt/${p}${sfx}#g" /verif/tools/prompts/$p.txt > /tmp/wt/${p}${sfx}/TASK.md
  printf "\nAlready taken by earlier participants (do something else, in a different part of the code / a different mechanism):\n%s\n\n%s\n" "$(cat /verif/tools/taken/$p.txt 2>/dev/null)" "$NOTE" >> /tmp/wt/${p}${sfx}/TASK.md
  (unset PYTHONDONTWRITEBYTECODE; /venv/bin/python -m compileall -q /tmp/wt/${p}${sfx}/src/stationeers_pytrapic >/dev/null 2>&1)
done
ls /tmp/wt
