#!/bin/bash
# mkwt.sh <name>: scratch worktree of /repo HEAD under /tmp/wt/<name> (outside /repo and /verif)
set -e
d=/tmp/wt/$1
mkdir -p /tmp/wt
git -C /repo worktree prune
[ -d "$d" ] && git -C /repo worktree remove --force "$d"
git -C /repo worktree add --detach "$d" HEAD >/dev/null 2>&1
cp /repo/src/stationeers_pytrapic/_version.py "$d/src/stationeers_pytrapic/_version.py"
echo "$d"
