#!/usr/bin/env python3
"""Regenerate MANIFEST.json from the table below (development-time helper)."""
import json
CHECKS = {}
def chk(pid, level, text, note, technique, ref):
    CHECKS[pid] = dict(property_id=pid, quick_cmd=f"./check {pid} --tier quick", thorough_cmd=f"./check {pid} --tier thorough",
        evidence_file=f"/verif/evidence/{pid}.json", replay_cmd_template=f"./check {pid} --replay {{path}}", engine="vp",
        level_claimed={"category": level, "text": text, "design_ref": ref}, level_note=note, technique=technique)
import importlib.util, os, sys
spec = importlib.util.spec_from_file_location("manifest_table", os.path.join(os.path.dirname(__file__), "manifest_table.py"))
m = importlib.util.module_from_spec(spec); spec.loader.exec_module(m)
for row in m.ROWS: chk(*row)
man = {
 "version": 1,
 "setup_cmd": "./setup.sh",
 "hooks": {"guard": "PYTRAPIC_VERIF", "enable": "no source hook in /repo: with PYTRAPIC_VERIF=1 (set by ./check) the harness wraps generate_code.assign_registers in-process (vp/comp.py) to capture pre-allocation register names and instruction owners", "baseline_off_cmd": "cd /repo && /venv/bin/python -m pytest -ra -q -p no:cacheprovider --timeout=900 --continue-on-collection-errors", "source_commits": [], "add_only": True},
 "engines": [{"name": "vp", "path": "/verif/vp", "serves_properties": sorted(CHECKS), "kind_free_text": "hand-written Python explorers: X-RUN (deviation-bounded stateless exploration of device answers on an explicit-state IC10 machine, conformance against a CPython reference executor), X-SEQ (exhaustive request histories on the live compiler / daemon), X-ENUM (complete enumeration of finite input spaces)"}],
 "checks": [CHECKS[k] for k in sorted(CHECKS)],
 "notes": m.NOTES,
 "not_applicable": m.NOT_APPLICABLE,
}
json.dump(man, open("/verif/MANIFEST.json", "w"), indent=1)
print("wrote MANIFEST.json with", len(CHECKS), "checks;", len(m.NOT_APPLICABLE), "not applicable")
