#!/bin/bash
# trymut.sh <worktree> <tier> <check ids...>: run checks against a scratch worktree (mutant) without touching /verif/evidence
wt=$1; tier=$2; shift 2
out=/tmp/mutout/$(basename $wt); mkdir -p $out
for c in "$@"; do
  echo "=== $c on $wt"
  PYTRAPIC_REPO=$wt PYTHONPATH=$wt/src VERIF_OUT=$out /verif/check $c --tier $tier 2>&1 | grep -v "^KNOWN-FINDING\|^WARNING conda" | tail -${TAILN:-6} | cut -c1-260
  echo "exit=${PIPESTATUS[0]}"
done
