#!/bin/bash
# runmut.sh <seeded id> <tier> <check ids...>: apply /verif/seeded/<id>/patch.diff to a fresh scratch worktree of /repo HEAD
# and run the given checks against it (evidence / replays go to /tmp/mutout/<id>, never into /verif); removes the worktree.
id=$1; tier=$2; shift 2
unset PYTHONDONTWRITEBYTECODE
wt=$(/verif/tools/mkwt.sh run-$id)
if ! git -C $wt apply /verif/seeded/$id/patch.diff 2>/tmp/apply-$id.err; then echo "PATCH DOES NOT APPLY to HEAD: $id"; cat /tmp/apply-$id.err; git -C /repo worktree remove --force $wt; exit 2; fi
/venv/bin/python -m compileall -q $wt/src/stationeers_pytrapic >/dev/null 2>&1
out=/tmp/mutout/$id; rm -rf $out; mkdir -p $out
for c in "$@"; do
  PYTRAPIC_REPO=$wt PYTHONPATH=$wt/src VERIF_OUT=$out /verif/check $c --tier $tier > $out/$c.log 2>&1
  rc=$?
  nv=$(grep -c "^VIOLATION" $out/$c.log)
  echo "$id $c exit=$rc violations_reported=$nv | $(grep -v '^KNOWN-FINDING\|^VIOLATION\|^  ' $out/$c.log | tail -1 | cut -c1-160)"
  grep -A1 "^VIOLATION" $out/$c.log | grep "family=" | sed 's/ key=[0-9a-f]*//' | sort | uniq -c | sort -rn | head -${TOPN:-3}
done
git -C /repo worktree remove --force $wt
