#!/bin/bash
# keepmut.sh <agent worktree> <seed id>: confirm a sub-agent's mutant independently in a fresh scratch worktree of /repo HEAD
# (patch applies, existing tests pass with it, demo fails with it and passes without), then store it under /verif/seeded/<id>/
src=$1; id=$2
v=$(/verif/tools/mkwt.sh verify-$id)
cp $src/demo.py $v/demo.py
cd $v
if ! git apply --index $src/patch.diff 2>/tmp/apply.err; then echo "PATCH DOES NOT APPLY"; cat /tmp/apply.err; fi
git diff --cached --stat | tail -1
PYTHONPATH=$v/src /venv/bin/python -m pytest -q -rf -p no:cacheprovider --timeout=900 > /tmp/tests_$id.txt 2>&1
tests=$(tail -1 /tmp/tests_$id.txt)
if echo "$tests" | grep -q failed; then
  # under machine load the @constexpr helper (1 s limit) times out: re-run the failing tests alone, up to 6 times
  ids=$(grep "^FAILED " /tmp/tests_$id.txt | sed 's/^FAILED //; s/ - .*//')
  for k in 1 2 3 4 5 6; do
    again=$(PYTHONPATH=$v/src /venv/bin/python -m pytest -q -p no:cacheprovider --timeout=900 $ids 2>&1 | tail -1)
    if ! echo "$again" | grep -q failed; then break; fi
    sleep 20
  done
  tests="$tests; the failing tests re-run alone: $again"
fi
echo "tests with patch: $tests"
PYTHONPATH=$v/src timeout 600 /venv/bin/python $v/demo.py > /tmp/demo_with.txt 2>&1; w=$?
echo "demo with patch: exit=$w"; tail -3 /tmp/demo_with.txt | cut -c1-200
git apply -R --index $src/patch.diff
PYTHONPATH=$v/src timeout 600 /venv/bin/python $v/demo.py > /tmp/demo_without.txt 2>&1; wo=$?
echo "demo without patch: exit=$wo"; tail -2 /tmp/demo_without.txt | cut -c1-200
mkdir -p /verif/seeded/$id
cp $src/patch.diff /verif/seeded/$id/patch.diff; cp $src/demo.py /verif/seeded/$id/demo.py
python3 - "$src/meta.json" "/verif/seeded/$id/meta.json" "$tests" "$w" "$wo" <<'PY'
import json,sys
m=json.load(open(sys.argv[1]))
m["confirmed"]={"tests_with_patch":sys.argv[3],"demo_exit_with_patch":int(sys.argv[4]),"demo_exit_without_patch":int(sys.argv[5]),"how":"tools/keepmut.sh: fresh scratch worktree of /repo HEAD, git apply patch.diff, repository test suite, demo.py with and without the patch"}
json.dump(m,open(sys.argv[2],"w"),indent=1)
PY
cd /; git -C /repo worktree remove --force $v
