#!/usr/bin/env python3
"""Development-time helper (never run by a check): run `./check <prop> --tier quick|thorough --propose`
and merge the failing witnesses of the *witness families* (W-...) into known_findings.json according to
tools/finding_map.json.  Failures outside witness families are never merged -- they are printed."""
import json, subprocess, sys
prop = sys.argv[1]
tiers = sys.argv[2:] or ["quick", "thorough"]
fmap = json.load(open("/verif/tools/finding_map.json"))
path = "/verif/known_findings.json"
data = json.load(open(path))
if set(tiers) == {"quick", "thorough"}:
    # both tiers are re-proposed: rebuild this property's open findings from scratch (drops stale witnesses)
    data["open"] = [f for f in data["open"] if f["property"] != prop]
for tier in tiers:
    out = subprocess.run(["/verif/check", prop, "--tier", tier, "--propose"], capture_output=True, text=True).stdout
    for line in out.splitlines():
        if not line.startswith('{"family"'):
            continue
        d = json.loads(line)
        ent = fmap.get(prop, {}).get(d["family"]) or fmap.get("*", {}).get(d["family"])
        if ent is None:
            print("NOT MERGED (no witness family):", d["family"], d["symptom"], d["n"])
            continue
        fid, what = ent
        e = next((f for f in data["open"] if f["id"] == fid and f["property"] == prop), None)
        if e is None:
            e = {"id": fid, "property": prop, "what": what, "witnesses": {}}
            data["open"].append(e)
        e["what"] = what
        e["witnesses"].update(d["witnesses"])
    print(prop, tier, "merged")
json.dump(data, open(path, "w"), indent=1)
