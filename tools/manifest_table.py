TRUST_M = "Trusted: the reference IC10 machine (vp/ic10.py), the reference executor (vp/ref.py), the repository's enum name tables. Known defects of the pinned tree are listed in known_findings.json and exercised by witness families."
XRUN = "bounded-exhaustive program enumeration x stateless deviation-bounded exploration of environment answers on an explicit-state IC10 machine"
ROWS = [
 ("C01", "model_checking",
  "Bounded-exhaustive: every program of the CTRL/CTRL2/EXPR/FUNC/DEV/LIST families is compiled by the real compiler; for each, every sequence of device/stack answers over a per-program alphabet (full product, or <= 2 deviations when the product exceeds the cap) up to an effect horizon is executed on an explicit-state IC10 machine and on a CPython reference executor; effect traces must agree. A coverage statement, not a proof: programs, values and horizons beyond the bounds are not covered.",
  TRUST_M,
  XRUN + ", conformance against a CPython reference executor",
  "DESIGN.md 4/C01"),
 ("C02", "model_checking",
  "Bounded-exhaustive and differential: every program of FUNC/LIST/DEV and a CTRL sub-family is compiled under all 2^5 behaviour-relevant option vectors, each given through the API and through '# pytrapic:' directive lines (all 2^8 vectors on a sub-family); every distinct emitted program is executed for every explored device-answer sequence on the explicit-state IC10 machine with call/stack-pointer monitors; all effect traces must equal each other and the reference executor's.",
  TRUST_M,
  XRUN + " over all option vectors (API and pragma), differential + reference conformance",
  "DESIGN.md 4/C02"),
 ("C04", "model_checking",
  "Bounded-exhaustive with a shadow-tag monitor: programs of the REG family (1..20 simultaneously live values x 11 lifetime shapes) and of FUNC/LIST/CTRL/DEV under the four calling-convention vectors are executed for every explored device-answer sequence; on every machine transition each register read through an operand that was virtual register v before allocation must find the value last written through v; zeroed vs poisoned initial registers must give the same trace; only r0..r15 occur; a rejection must be the out-of-registers error.",
  TRUST_M + " The pre-allocation names come from a harness-side wrapper of generate_code.assign_registers (no change in /repo).",
  XRUN + " with per-transition shadow register tags (pre-allocation virtual register names captured from the real allocator)",
  "DESIGN.md 4/C04"),
]
ALL = ["C%02d" % i for i in range(1, 19)]
_claimed = {r[0] for r in ROWS}
NOT_APPLICABLE = [{"property_id": p, "reason": "check not built yet (work in progress; DESIGN.md section 4 describes the planned model-checking approach)"} for p in ALL if p not in _claimed]
NOTES = "All checks: ./check <id> --tier quick|thorough; known defects of the pinned tree: /verif/known_findings.json; design: /verif/DESIGN.md"
