ROWS = [
 ("C01", "model_checking",
  "Bounded-exhaustive: every program of the CTRL/CTRL2/EXPR/FUNC/DEV/LIST families is compiled by the real compiler; for each, every sequence of device/stack answers over a per-program alphabet (full product, or <= 2 deviations when the product exceeds the cap) up to an effect horizon is executed on an explicit-state IC10 machine and on a CPython reference executor; effect traces must agree. A coverage statement, not a proof: programs, values and horizons beyond the bounds are not covered.",
  "Trusted: the reference IC10 machine (vp/ic10.py), the reference executor (vp/ref.py), the repository's enum name tables. Known defects of the pinned tree are listed in known_findings.json and exercised by witness families.",
  "bounded-exhaustive program enumeration x stateless deviation-bounded exploration of environment answers on an explicit-state IC10 machine, conformance against a CPython reference executor",
  "DESIGN.md 4/C01"),
]
ALL = ["C%02d" % i for i in range(1, 19)]
_claimed = {r[0] for r in ROWS}
NOT_APPLICABLE = [{"property_id": p, "reason": "check not built yet (work in progress; DESIGN.md section 4 describes the planned model-checking approach)"} for p in ALL if p not in _claimed]
NOTES = "All checks: ./check <id> --tier quick|thorough; known defects of the pinned tree: /verif/known_findings.json; design: /verif/DESIGN.md"
