#!/usr/bin/env python3
"""Development-time helper (never run by a check): merge `./check <id> --propose`
output lines into known_findings.json under a finding id.
usage: ./check C01 --propose | tools/mkfindings.py C01 F-01e 'what' W-LIST6+ [symptom-prefix]"""
import json, sys
prop, fid, what, family = sys.argv[1:5]
pref = sys.argv[5] if len(sys.argv) > 5 else ""
path = "/verif/known_findings.json"
try: data = json.load(open(path))
except FileNotFoundError: data = {"open": [], "fixed": []}
wit = {}
for line in sys.stdin:
    if not line.startswith('{"family"'): continue
    d = json.loads(line)
    if d["family"] == family and d["symptom"].startswith(pref): wit.update(d["witnesses"])
ent = next((f for f in data["open"] if f["id"] == fid and f["property"] == prop), None)
if ent is None:
    ent = {"id": fid, "property": prop, "what": what, "witnesses": {}}; data["open"].append(ent)
ent["what"] = what
ent["witnesses"].update(wit)
json.dump(data, open(path, "w"), indent=1, sort_keys=False)
print(fid, prop, len(wit), "witnesses merged")
