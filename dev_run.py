#!/venv/bin/python
"""Developer helper: run a family through X-RUN and print a symptom histogram."""
import sys, collections, time, json, os
os.environ.setdefault("PYTHONHASHSEED", "0")
sys.path.insert(0, os.path.dirname(os.path.abspath(__file__)))
from vp import families as F, xcase, runner, comp
fam = sys.argv[1]; tier = sys.argv[2] if len(sys.argv) > 2 else "quick"
cases = getattr(F, fam)(tier) if fam not in ("names_pairs","names_triples","term","func_cyclic") else getattr(F, fam)()
extra = json.loads(sys.argv[3]) if len(sys.argv) > 3 else None
for c in cases:
    c.setdefault("variants", [{}, {"inline_functions": False}])
    if extra is not None: c["variants"] = extra
    c["key"] = xcase.case_key(c)
comp.compile_with_meta(F.HDR + "db.Setting = 1\n", comp.opts())
t0 = time.time()
outs = runner.pmap(xcase.run_case, cases)
print(len(cases), "cases", f"{time.time()-t0:.1f}s")
h = collections.Counter(); ex = {}
for c, o in zip(cases, outs):
    h[o["symptom"]] += 1
    ex.setdefault(o["symptom"], (c, o))
for k, v in h.most_common(): print(v, k)
tot = runner.sum_stats(outs, ["executions", "transitions", "states", "capped", "undefined", "monitor_absent", "br_total", "br_both"])
print(tot)
print(runner.per_family(outs))
for k, (c, o) in ex.items():
    if k is None: continue
    print("=" * 30, k); print(c["src"]); d = o["detail"] or {}
    for kk in ("variant", "values", "ref_status", "got_status", "ref_trace", "got_trace", "events", "description", "traceback", "code"):
        if kk in d: print(kk, ":", d[kk] if kk != "code" else "\n" + d[kk])
with open("/tmp/fails_%s.txt" % fam, "w") as f:
    for c, o in zip(cases, outs):
        if o["symptom"] and not o["symptom"].startswith("compile-error"):
            d = o["detail"] or {}
            f.write("##### %s | %s | vals=%s\n%s-- ref=%s\n-- got=%s %s\n" % (o["symptom"], d.get("variant"), d.get("values"), c["src"], d.get("ref_trace"), d.get("got_trace"), d.get("events")))
und = [(c, o) for c, o in zip(cases, outs) if (o.get("stats") or {}).get("undefined")]
print("undefined cases:", len(und))
for c, o in und[:3]:
    print("-----UNDEFINED", o["stats"]["undefined_sample"]); print(c["src"])
